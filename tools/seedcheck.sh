#!/bin/bash
# usage: seedcheck.sh <seed-out-dir> <name> <check-id> [tier]
# Confirms a seeded change (demo fails with it, passes without, suite still passes), runs the
# registered check against it and stores it under /verif/seeded/<name>/.
# Works on a scratch worktree of /repo (VERIF_REPO), never on /repo itself; the worktree and
# its output are removed afterwards.
set -u
export GOFLAGS=-mod=mod GOPROXY=off GOSUMDB=off GOTOOLCHAIN=local
OUT=$1; NAME=$2; CHECK=$3; TIER=${4:-quick}
DST=/verif/seeded/$NAME
W=/tmp/vseed_$NAME; WOUT=/tmp/vseed_${NAME}_out
git -C /repo worktree remove --force $W 2>/dev/null; rm -rf $W $WOUT
git -C /repo worktree add --detach $W HEAD >/dev/null 2>&1 || { echo "cannot create worktree"; exit 2; }
cd $W || exit 2
DEMO=$(python3 -c "import json;print(json.load(open('$OUT/meta.json'))['demo'])")
DEMOFILE=$OUT/demo_test.go
PKGDIR=$(head -3 $DEMOFILE | grep -oE '(ua|uacp|uasc|uapolicy|server|monitor|errors|id|stats)(/[a-z]+)?' | head -1)
if head -5 $DEMOFILE | grep -q "^package opcua"; then PKGDIR=.; fi
[ -z "$PKGDIR" ] && PKGDIR=.
cp $DEMOFILE $W/$PKGDIR/zz_seed_demo_test.go
echo "== demo without the change (must pass): $DEMO"
RUN=$(grep -oE 'func (Test[A-Za-z0-9_]+)' $DEMOFILE | head -1 | awk '{print $2}')
(go test -vet=off -count=1 -run "$RUN" ./$PKGDIR 2>&1 | tail -3)
git apply $OUT/patch.diff || { echo "patch does not apply"; cd /; git -C /repo worktree remove --force $W; exit 2; }
echo "== demo with the change (must fail)"
(go test -vet=off -count=1 -run "$RUN" ./$PKGDIR 2>&1 | tail -3)
rm -f $W/$PKGDIR/zz_seed_demo_test.go
echo "== existing suite with the change"
(go build ./... && go test -vet=off -count=1 ./... 2>&1 | grep -E "^(FAIL|---|ok)" | grep -v "^ok" | head)
echo "== check $CHECK ($TIER) against the change"
cd /verif
VERIF_REPO=$W VERIF_OUT=$WOUT timeout 1800 ./bin/vcheck $CHECK --tier $TIER 2>&1 | tail -8; RC=${PIPESTATUS[0]}
echo "check exit=$RC"
mkdir -p $DST && cp $OUT/patch.diff $OUT/meta.json $DST/ && cp $DEMOFILE $DST/demo_test.go
python3 - <<PY
import json
m=json.load(open('$DST/meta.json')); m['base_commit']='$(git -C /repo rev-parse --short HEAD)'; m['checked_with']='./bin/vcheck $CHECK --tier $TIER'; m['check_exit']=$RC; m['detected']=($RC==1)
json.dump(m,open('$DST/meta.json','w'),indent=1)
PY
git -C /repo worktree remove --force $W; rm -rf $W $WOUT
echo "stored in $DST (detected=$([ $RC = 1 ] && echo yes || echo no))"
