#!/bin/bash
# usage: seedcheck.sh <seed-out-dir> <name> <check-id> [tier]
# Confirms a seeded change (demo fails with it, passes without, suite still passes),
# runs the registered check against it, stores it under /verif/seeded/<name>/, and undoes it.
set -u
export GOFLAGS=-mod=mod GOPROXY=off GOSUMDB=off GOTOOLCHAIN=local
OUT=$1; NAME=$2; CHECK=$3; TIER=${4:-quick}
DST=/verif/seeded/$NAME
cd /repo || exit 2
if [ -n "$(git status --porcelain)" ]; then echo "/repo not clean"; exit 2; fi
DEMO=$(python3 -c "import json;print(json.load(open('$OUT/meta.json'))['demo'])")
# place the demo
DEMOFILE=$OUT/demo_test.go
PKGDIR=$(head -3 $DEMOFILE | grep -oE '(ua|uacp|uasc|uapolicy|server|monitor|errors|id|stats)(/[a-z]+)?' | head -1)
if head -5 $DEMOFILE | grep -q "^package opcua"; then PKGDIR=.; fi
[ -z "$PKGDIR" ] && PKGDIR=.
cp $DEMOFILE /repo/$PKGDIR/zz_seed_demo_test.go
echo "== demo without the change (must pass): $DEMO"
RUN=$(grep -oE 'func (Test[A-Za-z0-9_]+)' $DEMOFILE | head -1 | awk '{print $2}')
(cd /repo && go test -vet=off -count=1 -run "$RUN" ./$PKGDIR 2>&1 | tail -3)
git apply $OUT/patch.diff || { echo "patch does not apply"; rm -f /repo/$PKGDIR/zz_seed_demo_test.go; exit 2; }
echo "== demo with the change (must fail)"
(cd /repo && go test -vet=off -count=1 -run "$RUN" ./$PKGDIR 2>&1 | tail -3)
rm -f /repo/$PKGDIR/zz_seed_demo_test.go
echo "== existing suite with the change"
(cd /repo && go build ./... && go test -vet=off -count=1 ./... 2>&1 | grep -E "^(FAIL|---|ok)" | grep -v "^ok" | head)
echo "== check $CHECK ($TIER) against the change"
cd /verif && cp evidence/$CHECK.json /tmp/ev_$CHECK.json 2>/dev/null
timeout 1500 ./bin/vcheck $CHECK --tier $TIER 2>&1 | tail -8; RC=${PIPESTATUS[0]}
echo "check exit=$RC"
cp /tmp/ev_$CHECK.json evidence/$CHECK.json 2>/dev/null
git -C /repo checkout -- . ; git -C /repo status --short
mkdir -p $DST && cp $OUT/patch.diff $OUT/meta.json $DST/ && cp $DEMOFILE $DST/demo_test.go
python3 - <<PY
import json
m=json.load(open('$DST/meta.json')); m['checked_with']='./bin/vcheck $CHECK --tier $TIER'; m['check_exit']=$RC; m['detected']=($RC==1)
json.dump(m,open('$DST/meta.json','w'),indent=1)
PY
rm -rf /verif/replays/$CHECK 2>/dev/null
echo "stored in $DST (detected=$([ $RC = 1 ] && echo yes || echo no))"
