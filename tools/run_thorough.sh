#!/bin/bash
# runs the thorough tier of every registered check once, sequentially; log: $1 (default /tmp/thorough.log)
LOG=${1:-/tmp/thorough.log}
cd /verif
for id in $(python3 -c "import json;print(' '.join(c['property_id'] for c in json.load(open('MANIFEST.json'))['checks']))"); do
  if grep -q "^$id " $LOG 2>/dev/null; then continue; fi
  t0=$(date +%s)
  timeout 4500 ./bin/vcheck $id --tier thorough > /tmp/thorough_$id.out 2>&1
  rc=$?
  echo "$id rc=$rc secs=$(( $(date +%s)-t0 )) :: $(tail -2 /tmp/thorough_$id.out | tr '\n' '|' | cut -c1-300)" >> $LOG
done
echo DONE >> $LOG
