#!/bin/bash
# runs the thorough tier of every registered check once, sequentially; log: $1 (default /tmp/thorough.log)
LOG=${1:-/tmp/thorough.log}
cd /verif
for id in $(python3 -c "import json;print(' '.join(c['property_id'] for c in json.load(open('MANIFEST.json'))['checks']))"); do
  if grep -q "^$id " $LOG 2>/dev/null; then continue; fi
  t0=$(date +%s)
  out=$(timeout 4000 ./bin/vcheck $id --tier thorough 2>&1 | tail -3 | tr '\n' '|')
  rc=$?
  echo "$id rc=${PIPESTATUS[0]} secs=$(( $(date +%s)-t0 )) :: $out" >> $LOG
done
echo DONE >> $LOG
