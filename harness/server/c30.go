package server

import (
	"context"
	"time"

	"github.com/gopcua/opcua/ua"
	"github.com/gopcua/opcua/uacp"
	"github.com/gopcua/opcua/uasc"
)

// C30 — the server only opens channels with security settings it enabled.
//
// A server is configured (through the real option functions) with a subset of policy/mode
// pairs; a client then runs the real OpenSecureChannel exchange with any pair against the
// real channel broker (RegisterConn -> NewServerSecureChannel -> Receive) over a modelled pipe.

type vfPair struct {
	policy string
	mode   ua.MessageSecurityMode
}

var vfC30Pairs = []vfPair{
	{"None", ua.MessageSecurityModeNone},
	{"Basic256Sha256", ua.MessageSecurityModeSign},
	{"Basic256Sha256", ua.MessageSecurityModeSignAndEncrypt},
	{"Basic128Rsa15", ua.MessageSecurityModeSignAndEncrypt},
	{"Aes256_Sha256_RsaPss", ua.MessageSecurityModeSign},
}

func vfC30Server(mask int) (*Server, []vfPair, *vfRSAPriv, []byte) {
	skey := vfRSAKey("server", 256)
	scert := vfCert("server", skey)
	s, _, _ := vfServer()
	cfg := &serverConfig{applicationName: "t"}
	opts := []Option{EndPoint("h", 4840), PrivateKey(skey), Certificate(scert), EnableAuthMode(ua.UserTokenTypeAnonymous)}
	var enabled []vfPair
	for i, p := range vfC30Pairs {
		if mask&(1<<uint(i)) != 0 {
			opts = append(opts, EnableSecurity(p.policy, p.mode))
			enabled = append(enabled, p)
		}
	}
	for _, o := range opts {
		o(cfg)
	}
	s.cfg = cfg
	s.url = cfg.endpoints[0]
	s.initEndpoints()
	return s, enabled, skey, scert
}

func vfC30Enabled(enabled []vfPair, uri string, mode ua.MessageSecurityMode) bool {
	for _, p := range enabled {
		if ua.FormatSecurityPolicyURI(p.policy) == uri && p.mode == mode {
			return true
		}
	}
	return false
}

// the advertised endpoints are exactly the configured pairs
func VerifH_C30_Advertised() {
	n := vfParam("c30.pairs", 4)
	mask := vfConcrete(vfInt("config", 0, (1<<uint(n))-1))
	s, enabled, _, _ := vfC30Server(mask)
	eps := s.Endpoints()
	vfAssert(len(eps) == len(enabled), "the number of advertised endpoints differs from the number of enabled security settings")
	for _, ep := range eps {
		vfAssert(vfC30Enabled(enabled, ep.SecurityPolicyURI, ep.SecurityMode), "an endpoint with a security setting that was not enabled is advertised")
	}
	for _, p := range enabled {
		found := false
		for _, ep := range eps {
			if ep.SecurityPolicyURI == ua.FormatSecurityPolicyURI(p.policy) && ep.SecurityMode == p.mode {
				found = true
			}
		}
		vfAssert(found, "an enabled security setting is not advertised")
	}
	vfReach("checked")
}

// a channel is established iff the requested pair is enabled
func VerifH_C30_OpenSecureChannel() {
	vfCryptoInjective(true)
	n := vfParam("c30.pairs", 4)
	mask := vfConcrete(vfInt("config", 1, (1<<uint(n))-1))
	s, enabled, _, scert := vfC30Server(mask)

	// the client's request: any policy of the table (or one more), any mode 1..3
	policies := []string{"None", "Basic256Sha256", "Basic128Rsa15", "Aes256_Sha256_RsaPss", "Basic256"}
	policy := policies[vfConcrete(vfInt("policy", 0, vfParam("c30.policies", 3)-1))]
	uri := ua.FormatSecurityPolicyURI(policy)
	mode := ua.MessageSecurityMode(vfConcrete(vfInt("mode", 1, 3)))
	// a secured policy with mode None cannot be produced by the real client code (it would not
	// encrypt the request); that combination is covered on the uasc level (VerifH_C30_ModeFitsPolicy)
	vfAssume(policy == "None" || mode != ua.MessageSecurityModeNone)

	a, b := vfTCPPair("c30")
	ack := &uacp.Acknowledge{ReceiveBufSize: 65535, SendBufSize: 65535, MaxChunkCount: 64, MaxMessageSize: 1 << 22}
	cconn, _ := uacp.NewConn(a, ack)
	sconn, _ := uacp.NewConn(b, ack)

	// a client that is not bound by gopcua's own configuration checks: the channel is created
	// with a consistent configuration, which is then set to the pair to be requested
	ccfg := &uasc.Config{SecurityPolicyURI: ua.SecurityPolicyURINone, SecurityMode: ua.MessageSecurityModeNone, Lifetime: 60000, RequestTimeout: time.Second}
	errs := make(chan error, 8)
	csc, err := uasc.NewSecureChannel("opc.tcp://h:4840", cconn, ccfg, errs)
	vfAssert(err == nil && csc != nil, "NewSecureChannel fails")
	ccfg.SecurityPolicyURI, ccfg.SecurityMode = uri, mode
	if mode != ua.MessageSecurityModeNone || policy != "None" {
		ckey := vfRSAKey("client", 256)
		ccfg.LocalKey, ccfg.Certificate, ccfg.RemoteCertificate = ckey, vfCert("client", ckey), scert
	}

	ctx, cancel := context.WithCancel(context.Background())
	go s.cb.RegisterConn(ctx, sconn, s.cfg.certificate, s.cfg.privateKey, s.securityEnabled)
	err = csc.Open(ctx)
	cancel()
	if vfC30Enabled(enabled, uri, mode) {
		vfAssert(err == nil, "an OpenSecureChannel request with an enabled policy and mode is refused")
		vfReach("opened")
		return
	}
	vfAssert(err != nil, "a secure channel is established with a policy/mode pair the server did not enable")
	vfReach("refused")
}
