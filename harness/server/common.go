package server

import (
	"github.com/gopcua/opcua/ua"
	"github.com/gopcua/opcua/uasc"
)

// vfServer builds a small server the way New() wires it, without importing the XML node set:
// namespace 0 (empty node namespace) plus one application namespace, all handlers registered.
func vfServer() (*Server, *NodeNameSpace, *NodeNameSpace) {
	s := &Server{
		cfg:      &serverConfig{},
		cb:       &channelBroker{endpoints: map[string]*ua.EndpointDescription{}, s: map[uint32]*uasc.SecureChannel{}, msgChan: make(chan *uasc.MessageBody)},
		sb:       newSessionBroker(nil),
		handlers: make(map[uint16]Handler),
		status:   &ua.ServerStatusDataType{State: ua.ServerStateRunning, BuildInfo: &ua.BuildInfo{}, ShutdownReason: &ua.LocalizedText{}},
	}
	// a started server always has at least one endpoint (initEndpoints)
	s.endpoints = []*ua.EndpointDescription{{EndpointURL: "opc.tcp://h:4840", Server: &ua.ApplicationDescription{ApplicationURI: "urn:test", ApplicationName: &ua.LocalizedText{}}, SecurityPolicyURI: ua.SecurityPolicyURINone, SecurityMode: ua.MessageSecurityModeNone}}
	ns0 := NewNodeNameSpace(s, "http://opcfoundation.org/UA/")
	ns1 := NewNodeNameSpace(s, "urn:test")
	s.initHandlers()
	return s, ns0, ns1
}
