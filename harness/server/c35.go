package server

import (
	"context"
	"encoding/binary"

	"github.com/gopcua/opcua/ua"
	"github.com/gopcua/opcua/uacp"
	"github.com/gopcua/opcua/uasc"
)

// vfOpenChannel: a server-side secure channel (policy None) opened by feeding a real
// OpenSecureChannel request to the real uasc receive path; responses written by the server
// can be read back from the returned connection.
type vfChan struct {
	sc  *uasc.SecureChannel
	tcp *vfTCPConn
}

func vfOpenChannel() *vfChan {
	req := &ua.OpenSecureChannelRequest{RequestHeader: &ua.RequestHeader{AuthenticationToken: ua.NewTwoByteNodeID(0), RequestHandle: 1}, RequestType: ua.SecurityTokenRequestTypeIssue,
		SecurityMode: ua.MessageSecurityModeNone, RequestedLifetime: 60000}
	plain, _ := ua.Encode(req)
	typeID, _ := ua.Encode(ua.NewFourByteExpandedNodeID(0, 446))
	sec, _ := uasc.NewAsymmetricSecurityHeader(ua.SecurityPolicyURINone, nil, nil).Encode()
	body := append(append(append([]byte{}, sec...), make([]byte, 8)...), append(typeID, plain...)...)
	binary.LittleEndian.PutUint32(body[len(sec):], 1)
	binary.LittleEndian.PutUint32(body[len(sec)+4:], 1)
	frame := make([]byte, 12)
	copy(frame, "OPNF")
	frame = append(frame, body...)
	binary.LittleEndian.PutUint32(frame[4:], uint32(len(frame)))
	tcp := vfTCP("srv", frame)
	conn, _ := uacp.NewConn(tcp, &uacp.Acknowledge{ReceiveBufSize: 65535, SendBufSize: 65535, MaxChunkCount: 64, MaxMessageSize: 1 << 22})
	errs := make(chan error, 8)
	sc, err := uasc.NewServerSecureChannel("", conn, &uasc.Config{SecurityPolicyURI: ua.SecurityPolicyURINone, SecurityMode: ua.MessageSecurityModeNone, Lifetime: 3600000}, errs, 7, 3, 9)
	vfAssert(err == nil && sc != nil, "NewServerSecureChannel fails")
	msg := sc.Receive(context.Background())
	vfAssert(msg != nil && msg.Err == nil, "opening the channel fails")
	return &vfChan{sc: sc, tcp: tcp}
}

// vfLastResponse decodes the last message the server wrote (single chunk, unsecured).
func (c *vfChan) vfLastResponse(before int) ua.Response {
	n := vfTCPWrites(c.tcp)
	if n <= before {
		return nil
	}
	f := vfTCPFrame(c.tcp, n-1)
	_, svc, err := ua.DecodeService(f[24:])
	vfAssert(err == nil, "the server's response does not decode")
	r, _ := svc.(ua.Response)
	return r
}

// vfSession creates a session through the real CreateSession handler and optionally activates it.
func vfSession(s *Server, c *vfChan, activate bool) *ua.NodeID {
	before := vfTCPWrites(c.tcp)
	s.handleService(context.Background(), c.sc, 10, &ua.CreateSessionRequest{RequestHeader: &ua.RequestHeader{AuthenticationToken: ua.NewTwoByteNodeID(0)}, RequestedSessionTimeout: 60000})
	resp, _ := c.vfLastResponse(before).(*ua.CreateSessionResponse)
	vfAssert(resp != nil && resp.AuthenticationToken != nil, "CreateSession fails")
	tok := resp.AuthenticationToken
	if activate {
		before = vfTCPWrites(c.tcp)
		s.handleService(context.Background(), c.sc, 11, &ua.ActivateSessionRequest{RequestHeader: &ua.RequestHeader{AuthenticationToken: tok}, ClientSignature: &ua.SignatureData{}})
		ar, _ := c.vfLastResponse(before).(*ua.ActivateSessionResponse)
		vfAssert(ar != nil && ar.ResponseHeader.ServiceResult == ua.StatusOK, "ActivateSession fails")
	}
	return tok
}

// C35 — services other than discovery and session setup require an activated session.
func VerifH_C35_SessionRequired() {
	s, _, ns := vfServer()
	id := ua.NewNumericNodeID(ns.ID(), 1000)
	node := NewVariableNode(id, "v", int32(7))
	ns.AddNode(node)
	c := vfOpenChannel()
	var tok *ua.NodeID
	kind := vfConcrete(vfInt("token", 0, 4))
	switch kind {
	case 0:
		tok = ua.NewTwoByteNodeID(0) // none
	case 1:
		tok = ua.NewNumericNodeID(0, vfU32("unknownToken")) // never issued (sessions get their own random tokens)
	case 2:
		tok = vfSession(s, c, false) // created, not activated
	case 3:
		tok = vfSession(s, c, true) // activated, then closed
		s.handleService(context.Background(), c.sc, 12, &ua.CloseSessionRequest{RequestHeader: &ua.RequestHeader{AuthenticationToken: tok}})
	case 4:
		tok = vfSession(s, c, true) // activated: the positive case
	}
	hdr := func() *ua.RequestHeader { return &ua.RequestHeader{AuthenticationToken: tok, RequestHandle: 99} }
	reqs := []ua.Request{
		&ua.ReadRequest{RequestHeader: hdr(), NodesToRead: []*ua.ReadValueID{{NodeID: id, AttributeID: ua.AttributeIDValue}}},
		&ua.WriteRequest{RequestHeader: hdr(), NodesToWrite: []*ua.WriteValue{{NodeID: id, AttributeID: ua.AttributeIDValue, Value: DataValueFromValue(int32(8))}}},
		&ua.BrowseRequest{RequestHeader: hdr(), NodesToBrowse: []*ua.BrowseDescription{{NodeID: id, ReferenceTypeID: ua.NewNumericNodeID(0, 0)}}},
		&ua.CreateSubscriptionRequest{RequestHeader: hdr(), RequestedPublishingInterval: 100, RequestedLifetimeCount: 10, RequestedMaxKeepAliveCount: 3},
		&ua.DeleteSubscriptionsRequest{RequestHeader: hdr(), SubscriptionIDs: []uint32{1}},
		&ua.CreateMonitoredItemsRequest{RequestHeader: hdr(), SubscriptionID: 1},
		&ua.SetMonitoringModeRequest{RequestHeader: hdr(), MonitoredItemIDs: []uint32{1}},
		&ua.DeleteMonitoredItemsRequest{RequestHeader: hdr(), MonitoredItemIDs: []uint32{1}},
		&ua.CallRequest{RequestHeader: hdr()},
		&ua.CloseSessionRequest{RequestHeader: hdr()}, // not session establishment: needs an activated session too
	}
	req := reqs[vfConcrete(vfInt("request", 0, len(reqs)-1))]
	before := vfTCPWrites(c.tcp)
	s.handleService(context.Background(), c.sc, 20, req)
	resp := c.vfLastResponse(before)
	vfAssert(resp != nil, "the server does not answer")
	if resp == nil {
		return
	}
	st := resp.Header().ServiceResult
	if kind == 4 {
		_, fault := resp.(*ua.ServiceFault)
		sessionErr := st == ua.StatusBadSessionIDInvalid || st == ua.StatusBadSessionNotActivated || st == ua.StatusBadSessionClosed
		vfAssert(!(fault && sessionErr), "a request with an activated session is refused with a session error")
		vfReach("served")
		return
	}
	vfAssert(st == ua.StatusBadSessionIDInvalid || st == ua.StatusBadSessionNotActivated || st == ua.StatusBadSessionClosed, "a request without an activated session is answered without a session error")
	// ... and performs no action
	vfAssert(node.Value().Value.Value() == interface{}(int32(7)), "a request without an activated session changed a node value")
	vfAssert(len(s.SubscriptionService.Subs) == 0, "a request without an activated session created a subscription")
	if kind == 2 {
		vfAssert(s.sb.Session(tok) != nil, "a request on a session that was never activated removed the session")
	}
	vfReach("refused")
}
