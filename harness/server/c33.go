package server

import (
	"github.com/gopcua/opcua/id"
	"github.com/gopcua/opcua/ua"
)

// C33 — Browse returns exactly the matching references.

// reference type hierarchy (Part 3/5): References > Hierarchical > {Organizes, HasChild > {HasSubtype, Aggregates > {HasComponent}}}
var vfRefTypes = []uint32{id.References, id.HierarchicalReferences, id.Organizes, id.HasChild, id.HasSubtype, id.Aggregates, id.HasComponent}
var vfRefParent = []int{-1, 0, 1, 1, 3, 3, 5}

func vfIsSubtype(t, of int) bool {
	for p := vfRefParent[t]; p >= 0; p = vfRefParent[p] {
		if p == of {
			return true
		}
	}
	return false
}

func vfRefTypeNodes(ns0 *NodeNameSpace) {
	nodes := make([]*Node, len(vfRefTypes))
	for i, t := range vfRefTypes {
		nodes[i] = NewNode(ua.NewNumericNodeID(0, t), map[ua.AttributeID]*ua.DataValue{ua.AttributeIDNodeClass: DataValueFromValue(uint32(ua.NodeClassReferenceType))}, nil, nil)
		ns0.AddNode(nodes[i])
	}
	for i := range vfRefTypes {
		if p := vfRefParent[i]; p >= 0 {
			nodes[p].AddRef(nodes[i], RefType(id.HasSubtype), true)
		}
	}
}

func VerifH_C33_Browse() {
	s, ns0, ns := vfServer()
	_ = s
	vfRefTypeNodes(ns0)
	classes := []ua.NodeClass{ua.NodeClassObject, ua.NodeClassVariable, ua.NodeClassMethod}
	src := NewFolderNode(ua.NewNumericNodeID(ns.ID(), 2000), "src")
	src.refs = nil
	ns.AddNode(src)
	nrefs := vfConcrete(vfInt("refs", 0, vfParam("c33.refs", 2)))
	type refSpec struct {
		typ     int
		forward bool
		class   ua.NodeClass
	}
	specs := make([]refSpec, nrefs)
	for i := range specs {
		tgt := NewVariableNode(ua.NewNumericNodeID(ns.ID(), uint32(3000+i)), "t", int32(i))
		ns.AddNode(tgt)
		sp := refSpec{typ: vfConcrete(vfInt("refType", 0, len(vfRefTypes)-1)), forward: vfBool("forward"), class: classes[vfConcrete(vfInt("class", 0, 2))]}
		specs[i] = sp
		src.refs = append(src.refs, &ua.ReferenceDescription{
			ReferenceTypeID: ua.NewNumericNodeID(0, vfRefTypes[sp.typ]), IsForward: sp.forward,
			NodeID:     ua.NewNumericExpandedNodeID(ns.ID(), uint32(3000+i)),
			BrowseName: &ua.QualifiedName{Name: "t"}, DisplayName: &ua.LocalizedText{Text: "t"}, NodeClass: sp.class,
			TypeDefinition: ua.NewNumericExpandedNodeID(0, 0),
		})
	}
	dir := ua.BrowseDirection(vfConcrete(vfInt("direction", 0, 2)))
	want := vfConcrete(vfInt("wantType", -1, len(vfRefTypes)-1)) // -1: not specified
	sub := vfBool("includeSubtypes")
	mask := vfU32("classMask")
	bd := &ua.BrowseDescription{NodeID: src.ID(), BrowseDirection: dir, IncludeSubtypes: sub, NodeClassMask: mask, ResultMask: 63}
	if want >= 0 {
		bd.ReferenceTypeID = ua.NewNumericNodeID(0, vfRefTypes[want])
	} else {
		bd.ReferenceTypeID = ua.NewNumericNodeID(0, 0)
	}
	res := ns.Browse(bd)
	vfAssert(res != nil && res.StatusCode == ua.StatusGood, "Browse of an existing node fails")
	if res == nil {
		return
	}
	for i, sp := range specs {
		dirOK := dir == ua.BrowseDirectionBoth || (dir == ua.BrowseDirectionForward && sp.forward) || (dir == ua.BrowseDirectionInverse && !sp.forward)
		typeOK := want < 0 || sp.typ == want || (sub && vfIsSubtype(sp.typ, want))
		classOK := mask == 0 || mask&uint32(sp.class) != 0
		n := 0
		for _, r := range res.References {
			if r.NodeID.NodeID.IntID() == uint32(3000+i) {
				n++
			}
		}
		if dirOK && typeOK && classOK {
			vfAssert(n == 1, "a matching reference is missing from the Browse result (or returned twice)")
		} else {
			vfAssert(n == 0, "Browse returns a reference that does not match the request")
		}
	}
	vfAssert(len(res.References) <= len(specs), "Browse returns references the node does not have")
	vfReach("browsed")
}
