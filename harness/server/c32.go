package server

import (
	"context"
	"math"

	"github.com/gopcua/opcua/ua"
)

func vfCall(s *Server, c *vfChan, req ua.Request) ua.Response {
	before := vfTCPWrites(c.tcp)
	s.handleService(context.Background(), c.sc, 30, req)
	return c.vfLastResponse(before)
}

func vfHdr(tok *ua.NodeID) *ua.RequestHeader {
	return &ua.RequestHeader{AuthenticationToken: tok, RequestHandle: 5}
}

func vfCreateSub(s *Server, c *vfChan, tok *ua.NodeID) uint32 {
	r, _ := vfCall(s, c, &ua.CreateSubscriptionRequest{RequestHeader: vfHdr(tok), RequestedPublishingInterval: 100, RequestedLifetimeCount: 3, RequestedMaxKeepAliveCount: 1}).(*ua.CreateSubscriptionResponse)
	vfAssert(r != nil && r.ResponseHeader.ServiceResult == ua.StatusOK, "CreateSubscription fails for an activated session")
	if r == nil {
		return 0
	}
	return r.SubscriptionID
}

// C32 — subscription and monitored item ids are unique and session-scoped.
func VerifH_C32_UniqueIDs() {
	s, _, _ := vfServer()
	c := vfOpenChannel()
	tok := vfSession(s, c, true)
	// a history of creates and deletes: create n1, delete some of them, create again
	n1 := vfConcrete(vfInt("creates", 1, 3))
	ids := make([]uint32, 0, 4)
	for i := 0; i < n1; i++ {
		ids = append(ids, vfCreateSub(s, c, tok))
	}
	del := vfConcrete(vfInt("delete", 0, n1-1))
	s.SubscriptionService.DeleteSubscription(ids[del])
	live := append(append([]uint32{}, ids[:del]...), ids[del+1:]...)
	nid := vfCreateSub(s, c, tok)
	vfAssert(nid != 0, "subscription id 0 handed out")
	for _, l := range live {
		vfAssert(nid != l, "a new subscription gets the id of a subscription that is still in use")
	}
	for i := range ids {
		for j := range ids {
			if i != j {
				vfAssert(ids[i] != ids[j], "two live subscriptions share an id")
			}
		}
	}
	vfReach("unique")
}

func VerifH_C32_SessionScoped() {
	s, _, ns := vfServer()
	node := NewVariableNode(ua.NewNumericNodeID(ns.ID(), 1000), "v", int32(7))
	ns.AddNode(node)
	c := vfOpenChannel()
	owner := vfSession(s, c, true)
	other := vfSession(s, c, true)
	sub := vfCreateSub(s, c, owner)
	cr, _ := vfCall(s, c, &ua.CreateMonitoredItemsRequest{RequestHeader: vfHdr(owner), SubscriptionID: sub, ItemsToCreate: []*ua.MonitoredItemCreateRequest{{
		ItemToMonitor: &ua.ReadValueID{NodeID: node.ID(), AttributeID: ua.AttributeIDValue}, MonitoringMode: ua.MonitoringModeReporting,
		RequestedParameters: &ua.MonitoringParameters{ClientHandle: 42, Filter: ua.NewExtensionObject(nil)}}}}).(*ua.CreateMonitoredItemsResponse)
	vfAssert(cr != nil && len(cr.Results) == 1 && cr.Results[0].StatusCode == ua.StatusOK, "CreateMonitoredItems fails for the owner")
	if cr == nil || len(cr.Results) != 1 {
		return
	}
	item := cr.Results[0].MonitoredItemID
	// the other session has a subscription of its own and may name either one in its requests
	otherSub := vfCreateSub(s, c, other)
	named := sub
	if vfBool("nameOwnSubscription") {
		named = otherSub
	}
	who := other
	target := item
	if vfBool("unknownID") {
		who = owner
		target = vfU32("id")
		vfAssume(target != item)
	}
	mode := s.MonitoredItemService.Items[item].Mode
	// change the monitoring mode
	sm, _ := vfCall(s, c, &ua.SetMonitoringModeRequest{RequestHeader: vfHdr(who), SubscriptionID: named, MonitoringMode: ua.MonitoringModeDisabled, MonitoredItemIDs: []uint32{target}}).(*ua.SetMonitoringModeResponse)
	vfAssert(sm != nil && len(sm.Results) == 1 && sm.Results[0] != ua.StatusOK, "another session (or an unknown id) may change the monitoring mode")
	vfAssert(s.MonitoredItemService.Items[item] != nil && s.MonitoredItemService.Items[item].Mode == mode, "a refused SetMonitoringMode changed the item")
	// delete the item
	dm, _ := vfCall(s, c, &ua.DeleteMonitoredItemsRequest{RequestHeader: vfHdr(who), SubscriptionID: named, MonitoredItemIDs: []uint32{target}}).(*ua.DeleteMonitoredItemsResponse)
	vfAssert(dm != nil && len(dm.Results) == 1 && dm.Results[0] != ua.StatusOK, "another session (or an unknown id) may delete a monitored item")
	// delete the subscription
	tsub := sub
	if who == owner {
		tsub = vfU32("subid")
		vfAssume(tsub != sub)
	}
	ds, _ := vfCall(s, c, &ua.DeleteSubscriptionsRequest{RequestHeader: vfHdr(who), SubscriptionIDs: []uint32{tsub}}).(*ua.DeleteSubscriptionsResponse)
	vfAssert(ds != nil && len(ds.Results) == 1 && ds.Results[0] != ua.StatusOK, "another session (or an unknown id) may delete a subscription")
	vfAssert(s.SubscriptionService.Subs[sub] != nil && s.MonitoredItemService.Items[item] != nil, "a refused delete removed the subscription or the item")
	// foreign CreateMonitoredItems on the owner's subscription
	if who == other {
		fr := vfCall(s, c, &ua.CreateMonitoredItemsRequest{RequestHeader: vfHdr(other), SubscriptionID: sub, ItemsToCreate: []*ua.MonitoredItemCreateRequest{{
			ItemToMonitor: &ua.ReadValueID{NodeID: node.ID(), AttributeID: ua.AttributeIDValue}, RequestedParameters: &ua.MonitoringParameters{Filter: ua.NewExtensionObject(nil)}}}})
		_, ok := fr.(*ua.CreateMonitoredItemsResponse)
		vfAssert(!ok, "another session may add monitored items to a foreign subscription")
	}
	vfReach("scoped")
}

// C29 — no request of a client, with or without a session, makes the server panic.
func VerifH_C29_Requests() {
	s, _, ns := vfServer()
	node := NewVariableNode(ua.NewNumericNodeID(ns.ID(), 1000), "v", int32(7))
	ns.AddNode(node)
	c := vfOpenChannel()
	tok := ua.NewTwoByteNodeID(0)
	if vfBool("withSession") {
		tok = vfSession(s, c, true)
	}
	// node ids: existing node, unknown node in an existing namespace, unknown namespace, standard reference types
	cands := []*ua.NodeID{node.ID(), ua.NewNumericNodeID(ns.ID(), 5), ua.NewNumericNodeID(7, 1000), ua.NewNumericNodeID(uint16(len(s.namespaces)), 1000), ua.NewNumericNodeID(65535, 1), ua.NewNumericNodeID(0, 33), ua.NewNumericNodeID(0, 0), ua.NewStringNodeID(ns.ID(), "x")}
	anyNode := func(tag string) *ua.NodeID { return cands[vfConcrete(vfInt(tag, 0, len(cands)-1))] }
	intervals := []float64{100, 0, -1, math.NaN(), 1e300, math.Inf(1), 5e-324}
	interval := intervals[vfConcrete(vfInt("interval", 0, len(intervals)-1))]
	var req ua.Request
	switch vfConcrete(vfInt("request", 0, 15)) {
	case 0:
		req = &ua.ReadRequest{RequestHeader: vfHdr(tok), MaxAge: interval, NodesToRead: []*ua.ReadValueID{{NodeID: anyNode("n"), AttributeID: ua.AttributeID(vfU32("attr")), DataEncoding: &ua.QualifiedName{}}}}
	case 1:
		req = &ua.ReadRequest{RequestHeader: vfHdr(tok)}
	case 2:
		req = &ua.WriteRequest{RequestHeader: vfHdr(tok), NodesToWrite: []*ua.WriteValue{{NodeID: anyNode("n"), AttributeID: ua.AttributeID(vfU32("attr")), Value: &ua.DataValue{Value: ua.MustVariant(int32(1))}}}}
	case 3:
		req = &ua.BrowseRequest{RequestHeader: vfHdr(tok), View: &ua.ViewDescription{ViewID: ua.NewTwoByteNodeID(0)}, NodesToBrowse: []*ua.BrowseDescription{{NodeID: anyNode("n"), ReferenceTypeID: anyNode("r"),
			BrowseDirection: ua.BrowseDirection(vfU32("dir")), IncludeSubtypes: vfBool("sub"), NodeClassMask: vfU32("mask")}}}
	case 4:
		req = &ua.BrowseNextRequest{RequestHeader: vfHdr(tok), ContinuationPoints: [][]byte{vfBytes("cp", 2)}}
	case 5:
		req = &ua.CallRequest{RequestHeader: vfHdr(tok), MethodsToCall: []*ua.CallMethodRequest{{ObjectID: anyNode("o"), MethodID: anyNode("m")}}}
	case 6:
		req = &ua.CreateSubscriptionRequest{RequestHeader: vfHdr(tok), RequestedPublishingInterval: interval, RequestedLifetimeCount: uint32(vfConcrete(vfInt("life", 0, 2))), RequestedMaxKeepAliveCount: uint32(vfConcrete(vfInt("keep", 0, 1)))}
	case 7:
		req = &ua.DeleteSubscriptionsRequest{RequestHeader: vfHdr(tok), SubscriptionIDs: []uint32{vfU32("id")}}
	case 8:
		req = &ua.CreateMonitoredItemsRequest{RequestHeader: vfHdr(tok), SubscriptionID: vfU32("id"), ItemsToCreate: []*ua.MonitoredItemCreateRequest{{
			ItemToMonitor: &ua.ReadValueID{NodeID: anyNode("n")}, RequestedParameters: &ua.MonitoringParameters{Filter: ua.NewExtensionObject(nil)}}}}
	case 9:
		req = &ua.SetMonitoringModeRequest{RequestHeader: vfHdr(tok), SubscriptionID: vfU32("sub"), MonitoredItemIDs: []uint32{vfU32("id")}}
	case 10:
		req = &ua.DeleteMonitoredItemsRequest{RequestHeader: vfHdr(tok), SubscriptionID: vfU32("sub"), MonitoredItemIDs: []uint32{vfU32("id")}}
	case 11:
		req = &ua.PublishRequest{RequestHeader: vfHdr(tok), SubscriptionAcknowledgements: []*ua.SubscriptionAcknowledgement{{SubscriptionID: vfU32("sub"), SequenceNumber: vfU32("seq")}}}
	case 12:
		req = &ua.GetEndpointsRequest{RequestHeader: vfHdr(tok), EndpointURL: "opc.tcp://h:4840"}
	case 13:
		req = &ua.FindServersRequest{RequestHeader: vfHdr(tok)}
	case 14:
		req = &ua.CloseSessionRequest{RequestHeader: vfHdr(tok), DeleteSubscriptions: vfBool("del")}
	case 15:
		req = &ua.TranslateBrowsePathsToNodeIDsRequest{RequestHeader: vfHdr(tok), BrowsePaths: []*ua.BrowsePath{{StartingNode: anyNode("n"), RelativePath: &ua.RelativePath{}}}}
	}
	s.handleService(context.Background(), c.sc, 40, req)
	vfReach("survived")
}

// C29 (bookkeeping kernel): why writes can never be wedged by subscriptions that are gone.
// After every create / delete of monitored items and subscriptions the per-node fan-out lists
// of the MonitoredItemService contain exactly the live items: every listed item is registered
// under its id and belongs to a subscription that still exists. (A stale entry feeds the
// notification queue of a deleted subscription, which nobody drains: after 100 writes the
// dispatch goroutine blocks for ever.)
func VerifH_C29_MonitoredItemBookkeeping() {
	s, _, ns := vfServer()
	ids := []*ua.NodeID{ua.NewNumericNodeID(ns.ID(), 1000), ua.NewNumericNodeID(ns.ID(), 1001)}
	for i, id := range ids {
		ns.AddNode(NewVariableNode(id, "v", int32(i)))
	}
	c := vfOpenChannel()
	tok := vfSession(s, c, true)
	sub := vfCreateSub(s, c, tok)
	n := vfConcrete(vfInt("items", 1, 3))
	var itemIDs []uint32
	for i := 0; i < n; i++ {
		node := ids[vfConcrete(vfInt("node", 0, 1))]
		r, _ := vfCall(s, c, &ua.CreateMonitoredItemsRequest{RequestHeader: vfHdr(tok), SubscriptionID: sub, ItemsToCreate: []*ua.MonitoredItemCreateRequest{{
			ItemToMonitor: &ua.ReadValueID{NodeID: node, AttributeID: ua.AttributeIDValue}, MonitoringMode: ua.MonitoringModeReporting,
			RequestedParameters: &ua.MonitoringParameters{ClientHandle: uint32(10 + i), QueueSize: 1}}}}).(*ua.CreateMonitoredItemsResponse)
		vfAssert(r != nil && len(r.Results) == 1 && r.Results[0].StatusCode == ua.StatusOK, "CreateMonitoredItems fails")
		if r == nil || len(r.Results) != 1 {
			return
		}
		itemIDs = append(itemIDs, r.Results[0].MonitoredItemID)
	}
	check := func(when string) {
		m := s.MonitoredItemService
		m.Mu.Lock()
		defer m.Mu.Unlock()
		for _, list := range m.Nodes {
			for _, it := range list {
				if it == nil {
					continue
				}
				vfAssert(m.Items[it.ID] == it, "a per-node notification list holds a monitored item that is not registered any more ("+when+")")
				s.SubscriptionService.Mu.Lock()
				live := it.Sub != nil && s.SubscriptionService.Subs[it.Sub.ID] == it.Sub
				s.SubscriptionService.Mu.Unlock()
				vfAssert(live, "a per-node notification list holds an item of a subscription that does not exist any more ("+when+")")
			}
		}
	}
	check("after creation")
	switch vfConcrete(vfInt("delete", 0, 2)) {
	case 0: // one item
		k := vfConcrete(vfInt("which", 0, n-1))
		vfCall(s, c, &ua.DeleteMonitoredItemsRequest{RequestHeader: vfHdr(tok), SubscriptionID: sub, MonitoredItemIDs: []uint32{itemIDs[k]}})
	case 1: // all items, in creation order
		vfCall(s, c, &ua.DeleteMonitoredItemsRequest{RequestHeader: vfHdr(tok), SubscriptionID: sub, MonitoredItemIDs: itemIDs})
	case 2: // the subscription
		vfCall(s, c, &ua.DeleteSubscriptionsRequest{RequestHeader: vfHdr(tok), SubscriptionIDs: []uint32{sub}})
	}
	vfSettle() // the handlers delete in background goroutines
	check("after deletion")
	vfReach("consistent")
}
