package server

import (
	"context"
	"encoding/binary"
	"time"

	"github.com/gopcua/opcua/ua"
	"github.com/gopcua/opcua/uacp"
	"github.com/gopcua/opcua/uasc"
)

// C34 — concurrent reads and writes of a node value are linearizable.
//
// Two clients, each on its own connection, talk to the real server pipeline: raw (policy None)
// chunks -> channelBroker.RegisterConn -> uasc Receive -> msgChan -> monitorConnections ->
// handleService -> AttributeService -> response chunk. Every client runs a short program of
// writes (symbolic values) and reads on one shared node and records invocation / response
// instants on a logical clock. All interleavings of the goroutines involved are explored up to
// the tier's preemption bound; each complete history must have a linearization as a register.

type vfRaw struct {
	conn                    *uacp.Conn
	chanID, tokenID, seq, n uint32
	auth                    *ua.NodeID
}

func vfRawFrame(typ string, chanID uint32, sec []byte, seq, reqID uint32, svc interface{}) []byte {
	body, err := ua.Encode(svc)
	vfAssert(err == nil, "encoding a request fails")
	typeID, _ := ua.Encode(ua.NewFourByteExpandedNodeID(0, ua.ServiceTypeID(svc)))
	f := make([]byte, 12)
	copy(f, typ+"F")
	binary.LittleEndian.PutUint32(f[8:], chanID)
	f = append(f, sec...)
	var sh [8]byte
	binary.LittleEndian.PutUint32(sh[0:], seq)
	binary.LittleEndian.PutUint32(sh[4:], reqID)
	f = append(append(append(f, sh[:]...), typeID...), body...)
	binary.LittleEndian.PutUint32(f[4:], uint32(len(f)))
	return f
}

// call sends one request as a single raw chunk and waits for the (single-chunk) response.
func (c *vfRaw) call(svc interface{}) interface{} {
	c.seq++
	c.n++
	var f []byte
	if c.tokenID == 0 {
		sec, _ := uasc.NewAsymmetricSecurityHeader(ua.SecurityPolicyURINone, nil, nil).Encode()
		f = vfRawFrame("OPN", 0, sec, c.seq, c.n, svc)
	} else {
		var sec [4]byte
		binary.LittleEndian.PutUint32(sec[:], c.tokenID)
		f = vfRawFrame("MSG", c.chanID, sec[:], c.seq, c.n, svc)
	}
	_, err := c.conn.Write(f)
	vfAssert(err == nil, "writing a request fails")
	b, err := c.conn.Receive()
	vfAssert(err == nil && len(b) > 24, "no response from the server")
	off := 12
	if string(b[:3]) == "OPN" {
		h := new(uasc.AsymmetricSecurityHeader)
		n, err := h.Decode(b[off:])
		vfAssert(err == nil, "the response's security header does not decode")
		off += n
	} else {
		off += 4
	}
	off += 8
	_, resp, err := ua.DecodeService(b[off:])
	vfAssert(err == nil, "the server's response does not decode")
	return resp
}

// connect opens a channel and an activated session through the real server pipeline.
func vfRawConnect(ctx context.Context, s *Server, tag string) *vfRaw {
	a, b := vfTCPPair(tag)
	ack := &uacp.Acknowledge{ReceiveBufSize: 65535, SendBufSize: 65535, MaxChunkCount: 64, MaxMessageSize: 1 << 22}
	cconn, _ := uacp.NewConn(a, ack)
	sconn, _ := uacp.NewConn(b, ack)
	go s.cb.RegisterConn(ctx, sconn, nil, nil, nil)
	c := &vfRaw{conn: cconn}
	or, _ := c.call(&ua.OpenSecureChannelRequest{RequestHeader: vfRawHdr(ua.NewTwoByteNodeID(0)), RequestType: ua.SecurityTokenRequestTypeIssue,
		SecurityMode: ua.MessageSecurityModeNone, RequestedLifetime: 60000}).(*ua.OpenSecureChannelResponse)
	vfAssert(or != nil && or.SecurityToken != nil, "opening the channel fails")
	c.chanID, c.tokenID = or.SecurityToken.ChannelID, or.SecurityToken.TokenID
	cr, _ := c.call(&ua.CreateSessionRequest{RequestHeader: vfRawHdr(ua.NewTwoByteNodeID(0)), ClientDescription: &ua.ApplicationDescription{ApplicationName: &ua.LocalizedText{}}, RequestedSessionTimeout: 60000}).(*ua.CreateSessionResponse)
	vfAssert(cr != nil && cr.AuthenticationToken != nil, "CreateSession fails")
	c.auth = cr.AuthenticationToken
	ar, _ := c.call(&ua.ActivateSessionRequest{RequestHeader: vfRawHdr(c.auth), ClientSignature: &ua.SignatureData{}, UserIdentityToken: ua.NewExtensionObject(nil), UserTokenSignature: &ua.SignatureData{}}).(*ua.ActivateSessionResponse)
	vfAssert(ar != nil && ar.ResponseHeader.ServiceResult == ua.StatusOK, "ActivateSession fails")
	return c
}

// a request header as a real client encodes it (no nil pointers on the wire)
func vfRawHdr(tok *ua.NodeID) *ua.RequestHeader {
	return &ua.RequestHeader{AuthenticationToken: tok, RequestHandle: 5, AdditionalHeader: ua.NewExtensionObject(nil)}
}

type vfOp struct {
	write     bool
	val       int64 // register content: an int32 value, or vfNull|status for a DataValue without a value
	inv, resp int
}

const vfNull = int64(1) << 40

type vfHist struct {
	clock int
	ops   []*vfOp
}

func (h *vfHist) tick() int { h.clock++; return h.clock }

func (c *vfRaw) write(h *vfHist, id *ua.NodeID, v int32) {
	c.writeDV(h, id, int64(v), &ua.DataValue{EncodingMask: ua.DataValueValue, Value: ua.MustVariant(v)})
}

// writeAt writes a value with an explicit source timestamp (a client's own clock)
func (c *vfRaw) writeAt(h *vfHist, id *ua.NodeID, v int32, unixSec int64) {
	c.writeDV(h, id, int64(v), &ua.DataValue{EncodingMask: ua.DataValueValue | ua.DataValueSourceTimestamp, Value: ua.MustVariant(v), SourceTimestamp: time.Unix(unixSec, 0).UTC()})
}

// writeNull writes a DataValue that carries a status but no value
func (c *vfRaw) writeNull(h *vfHist, id *ua.NodeID, st ua.StatusCode) {
	c.writeDV(h, id, vfNull|int64(st), &ua.DataValue{EncodingMask: ua.DataValueStatusCode, Status: st})
}

func (c *vfRaw) writeDV(h *vfHist, id *ua.NodeID, code int64, dv *ua.DataValue) {
	op := &vfOp{write: true, val: code}
	h.ops = append(h.ops, op)
	op.inv = h.tick()
	r, _ := c.call(&ua.WriteRequest{RequestHeader: vfRawHdr(c.auth),
		NodesToWrite: []*ua.WriteValue{{NodeID: id, AttributeID: ua.AttributeIDValue, Value: dv}}}).(*ua.WriteResponse)
	op.resp = h.tick()
	vfAssert(r != nil && len(r.Results) == 1 && r.Results[0] == ua.StatusOK, "a write of the shared node fails")
}

func (c *vfRaw) read(h *vfHist, id *ua.NodeID) {
	op := &vfOp{}
	h.ops = append(h.ops, op)
	op.inv = h.tick()
	r, _ := c.call(&ua.ReadRequest{RequestHeader: vfRawHdr(c.auth),
		NodesToRead: []*ua.ReadValueID{{NodeID: id, AttributeID: ua.AttributeIDValue, DataEncoding: &ua.QualifiedName{}}}}).(*ua.ReadResponse)
	op.resp = h.tick()
	vfAssert(r != nil && len(r.Results) == 1 && r.Results[0] != nil, "a read of the shared node fails")
	if dv := r.Results[0]; dv.Value == nil || dv.Value.Value() == nil {
		op.val = vfNull | int64(dv.Status)
	} else {
		v, ok := dv.Value.Value().(int32)
		vfAssert(ok, "a read of the shared node returns a value of another type")
		op.val = int64(v)
	}
}

// linearizable: some total order extending the real-time order in which every read returns the
// value of the latest preceding write (or the initial value).
func vfLinearizable(ops []*vfOp, init int64) bool {
	used := make([]bool, len(ops))
	var rec func(done int, cur int64) bool
	rec = func(done int, cur int64) bool {
		if done == len(ops) {
			return true
		}
		for i, o := range ops {
			if used[i] {
				continue
			}
			// o may come next only if no other pending operation finished before o started
			minimal := true
			for j, p := range ops {
				if j != i && !used[j] && p.resp < o.inv {
					minimal = false
				}
			}
			if !minimal {
				continue
			}
			next := cur
			if o.write {
				next = o.val
			} else if o.val != cur {
				continue
			}
			used[i] = true
			if rec(done+1, next) {
				return true
			}
			used[i] = false
		}
		return false
	}
	return rec(0, init)
}

func VerifH_C34_Linearizable() {
	vfFixedClock(true) // message timestamps play no role here
	vfPreempt(false)   // the set-up (channels, sessions) is sequential
	s, _, ns := vfServer()
	id := ua.NewNumericNodeID(ns.ID(), 1000)
	ns.AddNode(NewVariableNode(id, "v", int32(0)))
	ctx, cancel := context.WithCancel(context.Background())
	go s.monitorConnections(ctx)
	a := vfRawConnect(ctx, s, "ca")
	b := vfRawConnect(ctx, s, "cb")

	x, y := int32(vfU32("x")), int32(vfU32("y"))
	vfAssume(x != 0 && y != 0 && x != y)
	h := &vfHist{}
	prog := vfConcrete(vfInt("program", 0, vfParam("c34.programs", 3)-1))
	done := make(chan bool, 2)
	vfPreempt(true)
	go func() {
		switch prog {
		case 0: // writer / reader
			a.write(h, id, x)
		case 1:
			a.write(h, id, x)
			a.read(h, id)
		case 2:
			a.write(h, id, x)
			a.write(h, id, y)
		case 3: // a value, then a status without a value (e.g. a sensor failure)
			a.write(h, id, x)
			a.writeNull(h, id, ua.StatusBadSensorFailure)
		case 4: // the clients stamp their writes with their own clocks, and A's clock is ahead
			a.writeAt(h, id, x, 1700000100)
		}
		done <- true
	}()
	go func() {
		switch prog {
		case 0:
			b.read(h, id)
			b.read(h, id)
		case 1:
			b.write(h, id, y)
			b.read(h, id)
		case 2, 3:
			b.read(h, id)
			b.read(h, id)
		case 4:
			b.writeAt(h, id, y, 1700000050)
			b.read(h, id)
		}
		done <- true
	}()
	<-done
	<-done
	cancel()
	vfAssert(vfLinearizable(h.ops, 0), "a history of reads and writes of one node is not linearizable")
	vfReach("history")
}
