package server

import (
	"context"
	"time"

	"github.com/gopcua/opcua/ua"
	"github.com/gopcua/opcua/uacp"
	"github.com/gopcua/opcua/uapolicy"
	"github.com/gopcua/opcua/uasc"
)

// C35 on a secured channel: a session counts as activated only if the client signature in
// ActivateSession verifies. The channel is opened by the real asymmetric exchange between a real
// client channel and the real channel broker; requests travel through monitorConnections and
// handleService; the client signs (or mis-signs) the server's certificate and nonce.
func VerifH_C35_SecuredActivation() {
	vfCryptoInjective(true)
	vfFixedClock(true)
	policy := []string{"Basic256Sha256", "Aes256_Sha256_RsaPss"}[vfConcrete(vfInt("policy", 0, vfParam("c35.policies", 1)-1))]
	mode := ua.MessageSecurityMode(vfConcrete(vfInt("mode", 2, 3)))
	uri := ua.FormatSecurityPolicyURI(policy)

	s, _, ns := vfServer()
	skey := vfRSAKey("server", 256)
	scert := vfCert("server", skey)
	cfg := &serverConfig{applicationName: "t"}
	for _, o := range []Option{EndPoint("h", 4840), PrivateKey(skey), Certificate(scert), EnableAuthMode(ua.UserTokenTypeAnonymous), EnableSecurity(policy, mode)} {
		o(cfg)
	}
	s.cfg = cfg
	s.url = cfg.endpoints[0]
	s.initEndpoints()
	id := ua.NewNumericNodeID(ns.ID(), 1000)
	node := NewVariableNode(id, "v", int32(7))
	ns.AddNode(node)

	a, b := vfTCPPair("c35")
	ack := &uacp.Acknowledge{ReceiveBufSize: 65535, SendBufSize: 65535, MaxChunkCount: 64, MaxMessageSize: 1 << 22}
	cconn, _ := uacp.NewConn(a, ack)
	sconn, _ := uacp.NewConn(b, ack)
	ckey, okey := vfRSAKey("client", 256), vfRSAKey("other", 256)
	ccert := vfCert("client", ckey)
	ccfg := &uasc.Config{SecurityPolicyURI: uri, SecurityMode: mode, Lifetime: 60000, RequestTimeout: time.Second,
		LocalKey: ckey, Certificate: ccert, RemoteCertificate: scert, Thumbprint: uapolicy.Thumbprint(scert)}
	errs := make(chan error, 8)
	csc, err := uasc.NewSecureChannel("opc.tcp://h:4840", cconn, ccfg, errs)
	vfAssert(err == nil && csc != nil, "NewSecureChannel fails")
	ctx, cancel := context.WithCancel(context.Background())
	defer cancel()
	go s.monitorConnections(ctx)
	go s.cb.RegisterConn(ctx, sconn, s.cfg.certificate, s.cfg.privateKey, s.securityEnabled)
	vfAssert(csc.Open(ctx) == nil, "opening the secured channel fails")

	// CreateSession
	var cr *ua.CreateSessionResponse
	cnonce := make([]byte, 32)
	err = csc.SendRequest(ctx, &ua.CreateSessionRequest{ClientDescription: &ua.ApplicationDescription{ApplicationName: &ua.LocalizedText{}}, ClientNonce: cnonce, ClientCertificate: ccert, RequestedSessionTimeout: 60000}, nil,
		func(r ua.Response) error { cr, _ = r.(*ua.CreateSessionResponse); return nil })
	vfAssert(err == nil && cr != nil && cr.AuthenticationToken != nil, "CreateSession fails on a secured channel")
	if cr == nil {
		return
	}
	tok := cr.AuthenticationToken

	// ActivateSession with a client signature of one of five kinds
	kind := vfConcrete(vfInt("signature", 0, 4))
	sig, alg, err := csc.NewSessionSignature(cr.ServerCertificate, cr.ServerNonce)
	vfAssert(err == nil && len(sig) > 0, "the client cannot create its session signature")
	switch kind {
	case 1: // corrupted
		sig = append([]byte{}, sig...)
		d := vfU8("delta")
		vfAssume(d != 0)
		sig[vfConcrete(vfInt("pos", 0, 2))*100] ^= d
	case 2: // none
		sig = nil
	case 3: // made with a key that does not belong to the client certificate
		enc, _ := uapolicy.Asymmetric(uri, okey, &skey.PublicKey)
		sig, _ = enc.Signature(append(append([]byte{}, cr.ServerCertificate...), cr.ServerNonce...))
	case 4: // over another nonce
		other := append([]byte{}, cr.ServerNonce...)
		other[0] ^= 1
		sig, _, _ = csc.NewSessionSignature(cr.ServerCertificate, other)
	}
	var ar ua.Response
	err = csc.SendRequest(ctx, &ua.ActivateSessionRequest{ClientSignature: &ua.SignatureData{Algorithm: alg, Signature: sig}, UserIdentityToken: ua.NewExtensionObject(nil), UserTokenSignature: &ua.SignatureData{}}, tok,
		func(r ua.Response) error { ar = r; return nil })
	activated := false
	if a, ok := ar.(*ua.ActivateSessionResponse); ok && err == nil && a.ResponseHeader.ServiceResult == ua.StatusOK {
		activated = true
	}
	if kind == 0 {
		vfAssert(activated, "ActivateSession with a valid client signature is refused")
	} else {
		vfAssert(!activated, "ActivateSession succeeds although the client signature does not verify")
	}

	// afterwards: a Write is served iff the session was activated by a valid signature
	var wr ua.Response
	err = csc.SendRequest(ctx, &ua.WriteRequest{NodesToWrite: []*ua.WriteValue{{NodeID: id, AttributeID: ua.AttributeIDValue, Value: &ua.DataValue{EncodingMask: ua.DataValueValue, Value: ua.MustVariant(int32(8))}}}}, tok,
		func(r ua.Response) error { wr = r; return nil })
	w, served := wr.(*ua.WriteResponse)
	served = served && len(w.Results) == 1 && w.Results[0] == ua.StatusOK
	if kind == 0 {
		vfAssert(served && node.Value().Value.Value() == interface{}(int32(8)), "a request on a properly activated session is not served")
		vfReach("served")
		return
	}
	vfAssert(!served, "a request is served on a session whose activation failed the signature check")
	vfAssert(node.Value().Value.Value() == interface{}(int32(7)), "a request on a session whose activation failed changed a node value")
	vfReach("refused")
}
