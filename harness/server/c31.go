package server

import "github.com/gopcua/opcua/ua"

// C31 — node access levels are enforced for value reads and writes.

// vfLevel: an access level attribute that is absent, a byte (any value), or of the wrong type.
func vfLevel(tag string, n *Node, attr ua.AttributeID) (present bool, wellTyped bool, val uint8) {
	switch vfConcrete(vfInt(tag+".kind", 0, 3)) {
	case 0:
		return false, false, 0
	case 1:
		v := vfU8(tag)
		n.attr[attr] = DataValueFromValue(v)
		return true, true, v
	case 2:
		n.attr[attr] = DataValueFromValue(uint32(vfU8(tag))) // wrong type
		return true, false, 0
	}
	n.attr[attr] = DataValueFromValue("rw") // wrong type
	return true, false, 0
}

func VerifH_C31_Access() {
	s, _, ns := vfServer()
	_ = s
	old := int32(vfU32("old"))
	id := ua.NewNumericNodeID(ns.ID(), 1000)
	n := NewVariableNode(id, "v", old)
	ns.AddNode(n)
	ap, aok, a := vfLevel("accessLevel", n, ua.AttributeIDAccessLevel)
	up, uok, u := vfLevel("userAccessLevel", n, ua.AttributeIDUserAccessLevel)
	mayRead := (!ap || (aok && a&uint8(ua.AccessLevelTypeCurrentRead) != 0)) && (!up || (uok && u&uint8(ua.AccessLevelTypeCurrentRead) != 0))
	mayWrite := (!ap || (aok && a&uint8(ua.AccessLevelTypeCurrentWrite) != 0)) && (!up || (uok && u&uint8(ua.AccessLevelTypeCurrentWrite) != 0))

	// read through the attribute service
	as := &AttributeService{s}
	rr, err := as.Read(nil, &ua.ReadRequest{RequestHeader: &ua.RequestHeader{}, NodesToRead: []*ua.ReadValueID{{NodeID: id, AttributeID: ua.AttributeIDValue}}}, 1)
	vfAssert(err == nil && rr != nil, "Read fails")
	res := rr.(*ua.ReadResponse).Results
	vfAssert(len(res) == 1 && res[0] != nil, "Read returns no result")
	returned := res[0].Status == ua.StatusOK && res[0].Value != nil && res[0].Value.Value() != nil
	if returned {
		vfAssert(mayRead, "the value of a node without CurrentRead access is returned")
		vfAssert(res[0].Value.Value() == interface{}(old), "Read returns another value")
		vfReach("read")
	} else {
		vfAssert(!mayRead, "the value of a readable node is refused")
		vfReach("readDenied")
	}

	// write through the attribute service
	nv := int32(vfU32("new"))
	wr, err := as.Write(nil, &ua.WriteRequest{RequestHeader: &ua.RequestHeader{}, NodesToWrite: []*ua.WriteValue{{NodeID: id, AttributeID: ua.AttributeIDValue, Value: DataValueFromValue(nv)}}}, 2)
	vfAssert(err == nil && wr != nil, "Write fails")
	st := wr.(*ua.WriteResponse).Results
	vfAssert(len(st) == 1, "Write returns no result")
	cur := n.Value().Value.Value()
	if st[0] == ua.StatusOK {
		vfAssert(mayWrite, "a write to a node without CurrentWrite access is accepted")
		vfAssert(cur == interface{}(nv), "an accepted write does not change the value")
		vfReach("written")
	} else {
		vfAssert(!mayWrite, "a write to a writable node is refused")
		vfAssert(cur == interface{}(old), "a refused write changed the value")
		vfReach("writeDenied")
	}
}
