package server

import (
	"context"

	"github.com/gopcua/opcua/ua"
)

// C28 (server kernel) — after writes stop, the last value published for every monitored item
// equals the node's current value, and every notification carries the client handle registered
// for the node it reports.
//
// A raw client talks to the real server pipeline (RegisterConn -> Receive -> monitorConnections ->
// handleService; subscription run loop with its ticker; MonitoredItemService.ChangeNotification).
// It creates a subscription with two monitored items (client handles chosen by the client),
// performs a sequence of writes with symbolic values to the two nodes, and then publishes until
// the server has nothing more to report (a keep-alive).
func VerifH_C28_ServerConvergence() {
	vfFixedClock(true)
	vfTimeHorizon(10 * 60 * 1000)
	vfPreempt(false)
	s, _, ns := vfServer()
	ids := []*ua.NodeID{ua.NewNumericNodeID(ns.ID(), 1000), ua.NewNumericNodeID(ns.ID(), 1001)}
	for i, id := range ids {
		ns.AddNode(NewVariableNode(id, "v", int32(i+1)))
	}
	ctx, cancel := context.WithCancel(context.Background())
	defer cancel()
	go s.monitorConnections(ctx)
	c := vfRawConnect(ctx, s, "c28")

	cs, _ := c.call(&ua.CreateSubscriptionRequest{RequestHeader: vfRawHdr(c.auth), RequestedPublishingInterval: 100, RequestedLifetimeCount: 30, RequestedMaxKeepAliveCount: 1, PublishingEnabled: true}).(*ua.CreateSubscriptionResponse)
	vfAssert(cs != nil && cs.ResponseHeader.ServiceResult == ua.StatusOK, "CreateSubscription fails")
	// client handles are the client's choice (concrete candidates: the server keys a map by them)
	handles := [][]uint32{{7, 9}, {0, 1}, {4294967295, 0}}[vfConcrete(vfInt("handles", 0, vfParam("c28.handles", 3)-1))]
	var items []*ua.MonitoredItemCreateRequest
	for i, id := range ids {
		items = append(items, &ua.MonitoredItemCreateRequest{ItemToMonitor: &ua.ReadValueID{NodeID: id, AttributeID: ua.AttributeIDValue, DataEncoding: &ua.QualifiedName{}}, MonitoringMode: ua.MonitoringModeReporting,
			RequestedParameters: &ua.MonitoringParameters{ClientHandle: handles[i], SamplingInterval: 100, QueueSize: 1, DiscardOldest: true, Filter: ua.NewExtensionObject(nil)}})
	}
	cm, _ := c.call(&ua.CreateMonitoredItemsRequest{RequestHeader: vfRawHdr(c.auth), SubscriptionID: cs.SubscriptionID, TimestampsToReturn: ua.TimestampsToReturnBoth, ItemsToCreate: items}).(*ua.CreateMonitoredItemsResponse)
	vfAssert(cm != nil && len(cm.Results) == 2 && cm.Results[0].StatusCode == ua.StatusOK && cm.Results[1].StatusCode == ua.StatusOK, "CreateMonitoredItems fails")

	// optionally the subscription's notification queue is already full of earlier reports for
	// the first item (a burst of writes the publishing loop has not got to yet)
	if vfConcrete(vfInt("burst", 0, 1)) == 1 {
		s.SubscriptionService.Mu.Lock()
		sub := s.SubscriptionService.Subs[cs.SubscriptionID]
		s.SubscriptionService.Mu.Unlock()
		vfAssert(sub != nil, "the subscription is not registered on the server")
		for len(sub.NotifyChannel) < cap(sub.NotifyChannel) {
			sub.NotifyChannel <- &ua.MonitoredItemNotification{ClientHandle: handles[0], Value: &ua.DataValue{EncodingMask: ua.DataValueValue, Value: ua.MustVariant(int32(1))}}
		}
		vfReach("burst")
	}
	// the writes: which node each one goes to is explored, the values are symbolic
	vfPreempt(true)
	current := []int32{1, 2}
	nw := vfConcrete(vfInt("writes", 1, vfParam("c28.writes", 3)))
	h := &vfHist{}
	for k := 0; k < nw; k++ {
		n := vfConcrete(vfInt("node", 0, 1))
		v := int32(vfU32("value"))
		c.write(h, ids[n], v)
		current[n] = v
	}

	// publish until the server reports nothing any more
	last := map[uint32]int32{}
	seen := map[uint32]bool{}
	quiet := false
	for round := 0; round < nw+3 && !quiet; round++ {
		pr, _ := c.call(&ua.PublishRequest{RequestHeader: vfRawHdr(c.auth)}).(*ua.PublishResponse)
		vfAssert(pr != nil && pr.NotificationMessage != nil, "a Publish request is not answered with a PublishResponse")
		if pr == nil || pr.NotificationMessage == nil {
			return
		}
		if len(pr.NotificationMessage.NotificationData) == 0 {
			quiet = true // keep-alive
			break
		}
		for _, eo := range pr.NotificationMessage.NotificationData {
			dcn, ok := eo.Value.(*ua.DataChangeNotification)
			vfAssert(ok, "a notification is not a DataChangeNotification")
			for _, mi := range dcn.MonitoredItems {
				vfAssert(mi.ClientHandle == handles[0] || mi.ClientHandle == handles[1], "a notification carries a client handle that was never registered")
				v, ok := mi.Value.Value.Value().(int32)
				vfAssert(ok, "a notification carries a value of another type")
				last[mi.ClientHandle], seen[mi.ClientHandle] = v, true
			}
		}
	}
	vfAssert(quiet, "the server keeps publishing data changes although nothing is written any more")
	for i := range ids {
		// an item that was written must have been reported, and the last report is the current value
		written := current[i] != int32(i+1)
		if seen[handles[i]] {
			vfAssert(last[handles[i]] == current[i], "the last value published for a monitored item is not the node's current value")
		} else {
			vfAssert(!written, "a written monitored node was never reported")
		}
	}
	vfReach("converged")
}
