package opcua

import (
	"context"

	"github.com/gopcua/opcua/ua"
)

func vfMonResults(tag string) []*ua.MonitoredItemCreateResult {
	n := vfConcrete(vfInt(tag+".n", -1, 2))
	if n < 0 {
		return nil
	}
	out := make([]*ua.MonitoredItemCreateResult, n)
	for i := range out {
		out[i] = &ua.MonitoredItemCreateResult{StatusCode: ua.StatusCode(vfU32(tag + ".status")), MonitoredItemID: vfU32(tag + ".id"), FilterResult: ua.NewExtensionObject(nil)}
	}
	return out
}

// C21 part C: subscription operations against responses of arbitrary shape.
func VerifH_C21_Subscriptions() {
	op := vfConcrete(vfInt("op", 0, 6))
	c := vfConnectedClient(func(req ua.Request) ua.Response {
		switch req.(type) {
		case *ua.CreateSubscriptionRequest:
			return &ua.CreateSubscriptionResponse{ResponseHeader: vfRH(), SubscriptionID: 5, RevisedPublishingInterval: 100, RevisedLifetimeCount: 10, RevisedMaxKeepAliveCount: 3}
		case *ua.CreateMonitoredItemsRequest:
			return &ua.CreateMonitoredItemsResponse{ResponseHeader: vfRH(), Results: vfMonResults("create")}
		case *ua.DeleteMonitoredItemsRequest:
			return &ua.DeleteMonitoredItemsResponse{ResponseHeader: vfRH(), Results: vfStatuses("delitems", 2)}
		case *ua.DeleteSubscriptionsRequest:
			return &ua.DeleteSubscriptionsResponse{ResponseHeader: vfRH(), Results: vfStatuses("delsub", 2)}
		case *ua.SetMonitoringModeRequest:
			return &ua.SetMonitoringModeResponse{ResponseHeader: vfRH(), Results: vfStatuses("mode", 2)}
		case *ua.ModifyMonitoredItemsRequest:
			n := vfConcrete(vfInt("modify.n", -1, 2))
			res := &ua.ModifyMonitoredItemsResponse{ResponseHeader: vfRH()}
			if n >= 0 {
				res.Results = make([]*ua.MonitoredItemModifyResult, n)
				for i := range res.Results {
					res.Results[i] = &ua.MonitoredItemModifyResult{StatusCode: ua.StatusCode(vfU32("modify.status")), FilterResult: ua.NewExtensionObject(nil)}
				}
			}
			return res
		case *ua.ModifySubscriptionRequest:
			return &ua.ModifySubscriptionResponse{ResponseHeader: vfRH()}
		case *ua.SetTriggeringRequest:
			return &ua.SetTriggeringResponse{ResponseHeader: vfRH(), AddResults: vfStatuses("trig", 1)}
		case *ua.ReadRequest:
			return &ua.ReadResponse{ResponseHeader: vfRH(), Results: vfReadResults("stats")}
		}
		return &ua.ServiceFault{ResponseHeader: vfRH()}
	})
	ctx := context.Background()
	notif := make(chan *PublishNotificationData, 8)
	sub, err := c.Subscribe(ctx, &SubscriptionParameters{}, notif)
	vfAssert(err == nil && sub != nil, "Subscribe fails on a well-formed response")
	if sub == nil {
		return
	}
	item := func() *ua.MonitoredItemCreateRequest {
		return NewMonitoredItemCreateRequestWithDefaults(ua.NewNumericNodeID(1, 100), ua.AttributeIDValue, 1)
	}
	switch op {
	case 0:
		sub.Monitor(ctx, ua.TimestampsToReturnBoth, item())
	case 1:
		sub.Monitor(ctx, ua.TimestampsToReturnBoth, item(), item())
	case 2:
		sub.Unmonitor(ctx, 1, 2)
	case 3:
		sub.SetMonitoringMode(ctx, ua.MonitoringModeReporting, 1)
	case 4:
		sub.ModifyMonitoredItems(ctx, ua.TimestampsToReturnBoth, &ua.MonitoredItemModifyRequest{MonitoredItemID: 1, RequestedParameters: &ua.MonitoringParameters{Filter: ua.NewExtensionObject(nil)}})
	case 5:
		sub.Stats(ctx)
	case 6:
		sub.Cancel(ctx)
	}
	vfReach("returned")
}

// C21 part D / C26 kernel: one round of the publish loop (the real publish(), sendPublishRequest,
// handleAcks, handleNotification, notifySubscription) against a PublishResponse of arbitrary shape.
func VerifH_C26_PublishStep() { vfPublishRound(true) }

// C21: the same publish round with every result shape; only run-time panics matter here
// (e.g. fewer acknowledgement results than acknowledgements sent).
func VerifH_C21_PublishRound() { vfPublishRound(false) }

func vfPublishRound(oracle bool) {
	var lastReq *ua.PublishRequest
	subID := vfU32("subscriptionID")
	seq := vfU32("sequenceNumber")
	ndata := vfConcrete(vfInt("notificationData", 0, 3))
	results := vfStatuses("ackResults", 3)
	c := vfConnectedClient(func(req ua.Request) ua.Response {
		switch r := req.(type) {
		case *ua.CreateSubscriptionRequest:
			return &ua.CreateSubscriptionResponse{ResponseHeader: vfRH(), SubscriptionID: 5, RevisedPublishingInterval: 100, RevisedLifetimeCount: 10, RevisedMaxKeepAliveCount: 3}
		case *ua.PublishRequest:
			lastReq = r
			msg := &ua.NotificationMessage{SequenceNumber: seq}
			switch ndata {
			case 1:
				msg.NotificationData = []*ua.ExtensionObject{ua.NewExtensionObject(&ua.DataChangeNotification{MonitoredItems: []*ua.MonitoredItemNotification{{ClientHandle: 1, Value: &ua.DataValue{Value: ua.MustVariant(int32(1))}}}})}
			case 2:
				msg.NotificationData = []*ua.ExtensionObject{ua.NewExtensionObject(&ua.StatusChangeNotification{Status: ua.StatusBadTimeout, DiagnosticInfo: &ua.DiagnosticInfo{}})}
			case 3:
				msg.NotificationData = []*ua.ExtensionObject{ua.NewExtensionObject(nil)} // unknown / empty body
			}
			return &ua.PublishResponse{ResponseHeader: vfRH(), SubscriptionID: subID, NotificationMessage: msg, Results: results}
		}
		return &ua.ServiceFault{ResponseHeader: vfRH()}
	})
	ctx := context.Background()
	notif := make(chan *PublishNotificationData, 8)
	sub, err := c.Subscribe(ctx, &SubscriptionParameters{}, notif)
	vfAssert(err == nil && sub != nil, "Subscribe fails")
	if sub == nil {
		return
	}
	// pending acknowledgements from earlier rounds (0..2, symbolic contents)
	npend := vfConcrete(vfInt("pendingAcks", 0, 2))
	pend := make([]*ua.SubscriptionAcknowledgement, npend)
	for i := range pend {
		pend[i] = &ua.SubscriptionAcknowledgement{SubscriptionID: 5, SequenceNumber: vfU32("pendingSeq")}
	}
	c.pendingAcks = append([]*ua.SubscriptionAcknowledgement{}, pend...)

	err = c.publish(ctx)
	vfAssert(lastReq != nil, "no publish request was sent")
	if lastReq == nil {
		return
	}
	if !oracle {
		vfReach("returned")
		return
	}
	// the request carries exactly the pending list
	vfAssert(len(lastReq.SubscriptionAcknowledgements) == npend, "the publish request does not carry exactly the pending acknowledgements")
	if err != nil {
		vfReach("error")
		return
	}
	// expected pending list after the round (Part 4 5.13.5): an acknowledgement leaves the list iff its
	// result is Good, BadSubscriptionIdInvalid or BadSequenceNumberUnknown; a received non-keep-alive
	// notification of a known subscription adds exactly one
	var want []*ua.SubscriptionAcknowledgement
	if len(results) == npend {
		for i, a := range pend {
			r := results[i]
			if r != ua.StatusOK && r != ua.StatusBadSubscriptionIDInvalid && r != ua.StatusBadSequenceNumberUnknown {
				want = append(want, a)
			}
		}
	}
	if subID == 5 && ndata != 0 {
		want = append(want, &ua.SubscriptionAcknowledgement{SubscriptionID: 5, SequenceNumber: seq})
	}
	vfAssert(len(c.pendingAcks) == len(want), "wrong number of pending acknowledgements after a publish round")
	if len(c.pendingAcks) == len(want) {
		for i := range want {
			vfAssert(c.pendingAcks[i].SubscriptionID == want[i].SubscriptionID && c.pendingAcks[i].SequenceNumber == want[i].SequenceNumber, "a pending acknowledgement is wrong")
		}
	}
	if subID == 5 && ndata == 1 {
		vfAssert(len(notif) == 1, "a data change notification is not delivered exactly once")
	}
	vfReach("round")
}

// C26 (recreate kernel): after the reconnect logic decides to recreate a subscription, every
// monitored item registered on it is created again on the server — with its own
// TimestampsToReturn and client handle, on the new subscription id — and stays registered, so
// that a second recreate restores all of them again.
func VerifH_C26_Recreate() {
	vfFixedClock(true) // nothing here depends on time; keeps message timestamps concrete
	type created struct {
		sub    uint32
		ts     ua.TimestampsToReturn
		handle uint32
	}
	var log []created
	nextSub, nextItem := uint32(5), uint32(100)
	c := vfConnectedClient(func(req ua.Request) ua.Response {
		switch r := req.(type) {
		case *ua.CreateSubscriptionRequest:
			id := nextSub
			nextSub++
			return &ua.CreateSubscriptionResponse{ResponseHeader: vfRH(), SubscriptionID: id, RevisedPublishingInterval: 100, RevisedLifetimeCount: 10, RevisedMaxKeepAliveCount: 3}
		case *ua.DeleteSubscriptionsRequest:
			return &ua.DeleteSubscriptionsResponse{ResponseHeader: vfRH(), Results: []ua.StatusCode{ua.StatusOK}}
		case *ua.CreateMonitoredItemsRequest:
			res := &ua.CreateMonitoredItemsResponse{ResponseHeader: vfRH()}
			for _, it := range r.ItemsToCreate {
				nextItem++
				log = append(log, created{r.SubscriptionID, r.TimestampsToReturn, it.RequestedParameters.ClientHandle})
				res.Results = append(res.Results, &ua.MonitoredItemCreateResult{StatusCode: ua.StatusOK, MonitoredItemID: nextItem, RevisedSamplingInterval: 100, RevisedQueueSize: 1, FilterResult: ua.NewExtensionObject(nil)})
			}
			return res
		}
		return &ua.ServiceFault{ResponseHeader: vfRH()}
	})
	ctx := context.Background()
	notif := make(chan *PublishNotificationData, 8)
	sub, err := c.Subscribe(ctx, &SubscriptionParameters{}, notif)
	vfAssert(err == nil && sub != nil, "Subscribe fails")
	if sub == nil {
		return
	}
	n := vfConcrete(vfInt("items", 1, vfParam("c26.items", 3)))
	ts := make([]ua.TimestampsToReturn, n)
	for i := 0; i < n; i++ {
		ts[i] = ua.TimestampsToReturn(vfConcrete(vfInt("timestamps", 0, 2)))
		res, err := sub.Monitor(ctx, ts[i], NewMonitoredItemCreateRequestWithDefaults(ua.NewNumericNodeID(1, uint32(1000+i)), ua.AttributeIDValue, uint32(10+i)))
		vfAssert(err == nil && res != nil && len(res.Results) == 1, "Monitor fails")
	}
	for round := 1; round <= 2; round++ {
		log = nil
		old := sub.SubscriptionID
		err = c.recreateSubscription(ctx, old)
		vfAssert(err == nil, "recreating a subscription fails although the server accepts every request")
		vfAssert(sub.SubscriptionID != old && c.subs[sub.SubscriptionID] == sub && c.subs[old] == nil && len(c.subs) == 1, "the recreated subscription is not registered under its new id only")
		vfAssert(len(log) == n, "a recreate does not create every monitored item of the subscription exactly once")
		for i := 0; i < n; i++ {
			found := 0
			for _, e := range log {
				if e.handle == uint32(10+i) {
					found++
					vfAssert(e.ts == ts[i], "a monitored item is recreated with another TimestampsToReturn")
					vfAssert(e.sub == sub.SubscriptionID, "a monitored item is recreated on another subscription id")
				}
			}
			vfAssert(found == 1, "a monitored item is missing (or duplicated) after a recreate")
		}
		vfAssert(len(sub.items) == n, "the subscription lost track of monitored items after a recreate")
	}
	vfReach("recreated")
}
