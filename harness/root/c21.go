package opcua

import (
	"context"
	"time"

	"github.com/gopcua/opcua/ua"
)

// C21 — client calls never panic on any well-formed (decodable) server response.
//
// Part A: the node helpers (node.go) talk to the server through ClientInterface; a scripted
// implementation hands back responses of every shape the decoder can produce: result arrays
// nil / empty / 1 / 2 long regardless of the request, any status, Variants of several types.

type vfScript struct {
	read       func(*ua.ReadRequest) (*ua.ReadResponse, error)
	browse     func(*ua.BrowseRequest) (*ua.BrowseResponse, error)
	browseNext func(*ua.BrowseNextRequest) (*ua.BrowseNextResponse, error)
	send       func(ua.Request) ua.Response
}

func (s *vfScript) Browse(ctx context.Context, r *ua.BrowseRequest) (*ua.BrowseResponse, error) { return s.browse(r) }
func (s *vfScript) BrowseNext(ctx context.Context, r *ua.BrowseNextRequest) (*ua.BrowseNextResponse, error) {
	return s.browseNext(r)
}
func (s *vfScript) Node(id *ua.NodeID) *Node                               { return NewNode(id, s) }
func (s *vfScript) NodeFromExpandedNodeID(id *ua.ExpandedNodeID) *Node     { return NewNode(id.NodeID, s) }
func (s *vfScript) Read(ctx context.Context, r *ua.ReadRequest) (*ua.ReadResponse, error) { return s.read(r) }
func (s *vfScript) Send(ctx context.Context, r ua.Request, h func(ua.Response) error) error {
	return h(s.send(r))
}
func (s *vfScript) ForgetSubscription(context.Context, uint32) {}
func (s *vfScript) RequestTimeout() time.Duration               { return time.Second }

// vfAnyVariant: a Variant as the decoder may produce it (never a nil pointer; value of various types or null)
func vfAnyVariant(tag string) *ua.Variant {
	switch vfConcrete(vfInt(tag+".type", 0, 8)) {
	case 0:
		return new(ua.Variant) // null
	case 1:
		return ua.MustVariant(vfU8(tag))
	case 2:
		return ua.MustVariant(int32(vfU32(tag)))
	case 3:
		return ua.MustVariant(vfString(tag, 1))
	case 4:
		return ua.MustVariant(&ua.QualifiedName{Name: "q"})
	case 5:
		return ua.MustVariant(&ua.LocalizedText{Text: "t"})
	case 6:
		return ua.MustVariant([]string{"a", "b"})
	case 7:
		return ua.MustVariant(uint32(vfU32(tag)))
	}
	return ua.MustVariant(ua.NewNumericNodeID(1, 2))
}

func vfReadResults(tag string) []*ua.DataValue {
	n := vfConcrete(vfInt(tag+".n", -1, 2))
	if n < 0 {
		return nil
	}
	out := make([]*ua.DataValue, n)
	for i := range out {
		out[i] = &ua.DataValue{Value: vfAnyVariant(tag), Status: ua.StatusCode(vfU32(tag + ".status"))}
	}
	return out
}

func vfBrowseResults(tag string) []*ua.BrowseResult {
	n := vfConcrete(vfInt(tag+".n", -1, 2))
	if n < 0 {
		return nil
	}
	out := make([]*ua.BrowseResult, n)
	for i := range out {
		out[i] = &ua.BrowseResult{StatusCode: ua.StatusCode(vfU32(tag + ".status"))}
		if vfBool(tag + ".cp") {
			out[i].ContinuationPoint = []byte{1}
		}
		if vfBool(tag + ".refs") {
			out[i].References = []*ua.ReferenceDescription{{NodeID: ua.NewNumericExpandedNodeID(1, 5), ReferenceTypeID: ua.NewNumericNodeID(0, 35), BrowseName: &ua.QualifiedName{}, DisplayName: &ua.LocalizedText{}, TypeDefinition: ua.NewNumericExpandedNodeID(0, 0)}}
		}
	}
	return out
}

func VerifH_C21_NodeHelpers() {
	calls := 0
	s := &vfScript{}
	s.read = func(*ua.ReadRequest) (*ua.ReadResponse, error) {
		return &ua.ReadResponse{ResponseHeader: &ua.ResponseHeader{}, Results: vfReadResults("read")}, nil
	}
	s.browse = func(*ua.BrowseRequest) (*ua.BrowseResponse, error) {
		return &ua.BrowseResponse{ResponseHeader: &ua.ResponseHeader{}, Results: vfBrowseResults("browse")}, nil
	}
	s.browseNext = func(*ua.BrowseNextRequest) (*ua.BrowseNextResponse, error) {
		calls++
		if calls > 2 {
			return &ua.BrowseNextResponse{ResponseHeader: &ua.ResponseHeader{}, Results: []*ua.BrowseResult{{}}}, nil
		}
		return &ua.BrowseNextResponse{ResponseHeader: &ua.ResponseHeader{}, Results: vfBrowseResults("next")}, nil
	}
	s.send = func(r ua.Request) ua.Response {
		switch vfConcrete(vfInt("send.kind", 0, 2)) {
		case 0:
			return &ua.ServiceFault{ResponseHeader: &ua.ResponseHeader{ServiceResult: ua.StatusBadNodeIDUnknown}}
		case 1:
			return &ua.ReadResponse{ResponseHeader: &ua.ResponseHeader{}}
		}
		res := &ua.TranslateBrowsePathsToNodeIDsResponse{ResponseHeader: &ua.ResponseHeader{}}
		n := vfConcrete(vfInt("tr.n", -1, 1))
		if n >= 0 {
			res.Results = make([]*ua.BrowsePathResult, n)
			for i := range res.Results {
				res.Results[i] = &ua.BrowsePathResult{StatusCode: ua.StatusCode(vfU32("tr.status"))}
				if vfBool("tr.target") {
					res.Results[i].Targets = []*ua.BrowsePathTarget{{TargetID: ua.NewNumericExpandedNodeID(1, 7)}}
				}
			}
		}
		return res
	}
	n := NewNode(ua.NewNumericNodeID(1, 100), s)
	ctx := context.Background()
	switch vfConcrete(vfInt("helper", 0, 13)) {
	case 0:
		n.NodeClass(ctx)
	case 1:
		n.BrowseName(ctx)
	case 2:
		n.Description(ctx)
	case 3:
		n.DisplayName(ctx)
	case 4:
		n.AccessLevel(ctx)
	case 5:
		n.HasAccessLevel(ctx, ua.AccessLevelTypeCurrentRead)
	case 6:
		n.UserAccessLevel(ctx)
	case 7:
		n.HasUserAccessLevel(ctx, ua.AccessLevelTypeCurrentWrite)
	case 8:
		n.Value(ctx)
	case 9:
		n.Attributes(ctx, ua.AttributeIDValue, ua.AttributeIDBrowseName)
	case 10:
		n.Children(ctx, 0, ua.NodeClassAll)
	case 11:
		n.ReferencedNodes(ctx, 0, ua.BrowseDirectionBoth, ua.NodeClassAll, true)
	case 12:
		n.References(ctx, 0, ua.BrowseDirectionForward, ua.NodeClassAll, true)
	case 13:
		n.TranslateBrowsePathInNamespaceToNodeID(ctx, 1, "a.b")
	}
	vfReach("returned")
}

// Part B: client methods over a real secure channel against a scripted server. The response is
// of the expected type with arbitrary result shapes, another registered response type, or a
// ServiceFault.
func vfStatuses(tag string, maxn int) []ua.StatusCode {
	n := vfConcrete(vfInt(tag+".n", -1, maxn))
	if n < 0 {
		return nil
	}
	out := make([]ua.StatusCode, n)
	for i := range out {
		out[i] = ua.StatusCode(vfU32(tag + ".code"))
	}
	return out
}

func VerifH_C21_ClientCalls() {
	op := vfConcrete(vfInt("op", 0, 6))
	kind := vfConcrete(vfInt("responseKind", 0, 2)) // 0 expected type, 1 another response type, 2 service fault
	c := vfConnectedClient(func(req ua.Request) ua.Response {
		switch kind {
		case 1:
			if _, isRead := req.(*ua.ReadRequest); isRead {
				return &ua.BrowseResponse{ResponseHeader: vfRH()}
			}
			return &ua.ReadResponse{ResponseHeader: vfRH()}
		case 2:
			h := vfRH()
			h.ServiceResult = ua.StatusBadNodeIDUnknown
			return &ua.ServiceFault{ResponseHeader: h}
		}
		switch req.(type) {
		case *ua.ReadRequest:
			return &ua.ReadResponse{ResponseHeader: vfRH(), Results: vfReadResults("read")}
		case *ua.WriteRequest:
			return &ua.WriteResponse{ResponseHeader: vfRH(), Results: vfStatuses("write", 2)}
		case *ua.BrowseRequest:
			return &ua.BrowseResponse{ResponseHeader: vfRH(), Results: vfBrowseResults("browse")}
		case *ua.BrowseNextRequest:
			return &ua.BrowseNextResponse{ResponseHeader: vfRH(), Results: vfBrowseResults("next")}
		case *ua.CallRequest:
			n := vfConcrete(vfInt("call.n", -1, 2))
			res := &ua.CallResponse{ResponseHeader: vfRH()}
			if n >= 0 {
				res.Results = make([]*ua.CallMethodResult, n)
				for i := range res.Results {
					res.Results[i] = &ua.CallMethodResult{StatusCode: ua.StatusCode(vfU32("call.status"))}
				}
			}
			return res
		case *ua.GetEndpointsRequest:
			return &ua.GetEndpointsResponse{ResponseHeader: vfRH()}
		}
		return &ua.ServiceFault{ResponseHeader: vfRH()}
	})
	ctx := context.Background()
	id := ua.NewNumericNodeID(1, 100)
	switch op {
	case 0:
		c.Read(ctx, &ua.ReadRequest{NodesToRead: []*ua.ReadValueID{{NodeID: id, AttributeID: ua.AttributeIDValue}}})
	case 1:
		c.Write(ctx, &ua.WriteRequest{NodesToWrite: []*ua.WriteValue{{NodeID: id, AttributeID: ua.AttributeIDValue, Value: &ua.DataValue{EncodingMask: ua.DataValueValue, Value: ua.MustVariant(int32(1))}}}})
	case 2:
		c.Browse(ctx, &ua.BrowseRequest{View: &ua.ViewDescription{ViewID: ua.NewTwoByteNodeID(0)}, NodesToBrowse: []*ua.BrowseDescription{{NodeID: id, ReferenceTypeID: ua.NewNumericNodeID(0, 0)}}})
	case 3:
		c.Call(ctx, &ua.CallMethodRequest{ObjectID: id, MethodID: id})
	case 4:
		c.NamespaceArray(ctx)
	case 5:
		c.FindNamespace(ctx, "urn:x")
	case 6:
		c.GetEndpoints(ctx)
	}
	vfReach("returned")
}
