package opcua

import (
	"reflect"
	"time"

	"github.com/gopcua/opcua/ua"
	"github.com/gopcua/opcua/uacp"
)

// C23 — client options affect only the client they are applied to.
func VerifH_C23_Options() {
	before := *uacp.DefaultClientACK
	locales0 := append([]string{}, DefaultSessionConfig().LocaleIDs...)
	a, b, c, d := vfU32("maxMsg"), vfU32("maxChunks"), vfU32("recvBuf"), vfU32("sendBuf")
	lt, rt, st := vfU32("lifetimeMs"), vfU32("reqTimeoutMs"), vfU32("sessTimeoutMs")
	cfg1, err := ApplyConfig(
		MaxMessageSize(a), MaxChunkCount(b), ReceiveBufferSize(c), SendBufferSize(d),
		Lifetime(time.Duration(lt)*time.Millisecond), RequestTimeout(time.Duration(rt)*time.Millisecond), SessionTimeout(time.Duration(st)*time.Millisecond),
		ApplicationName("one"), ApplicationURI("urn:one"), ProductURI("urn:p1"), SessionName("s1"), Locales("de"),
		AutoReconnect(false), ReconnectInterval(time.Duration(rt)*time.Millisecond), DialTimeout(time.Duration(rt)*time.Millisecond),
		SecurityMode(ua.MessageSecurityModeNone), SecurityPolicy("None"), AuthAnonymous(),
	)
	vfAssert(err == nil && cfg1 != nil, "ApplyConfig fails")
	// the option values reached the first client
	vfAssert(cfg1.dialer.ClientACK.MaxMessageSize == a && cfg1.dialer.ClientACK.MaxChunkCount == b &&
		cfg1.dialer.ClientACK.ReceiveBufSize == c && cfg1.dialer.ClientACK.SendBufSize == d, "buffer options are not applied to the client they were given to")
	// package-level defaults are unchanged
	after := *uacp.DefaultClientACK
	vfAssert(after == before, "configuring one client changed the package-level default Acknowledge")
	// a client created afterwards sees the documented defaults
	cfg2, err := ApplyConfig()
	vfAssert(err == nil && cfg2 != nil, "ApplyConfig() fails")
	vfAssert(*cfg2.dialer.ClientACK == before, "a client created later inherits another client's buffer options")
	def := DefaultClientConfig()
	vfAssert(cfg2.sechan.Lifetime == def.Lifetime && cfg2.sechan.RequestTimeout == def.RequestTimeout && cfg2.sechan.AutoReconnect == def.AutoReconnect &&
		cfg2.sechan.ReconnectInterval == def.ReconnectInterval && cfg2.sechan.SecurityMode == def.SecurityMode && cfg2.sechan.SecurityPolicyURI == def.SecurityPolicyURI,
		"a client created later inherits another client's channel options")
	ds := DefaultSessionConfig()
	vfAssert(cfg2.session.SessionTimeout == ds.SessionTimeout && cfg2.session.SessionName == ds.SessionName, "a client created later inherits another client's session options")
	vfAssert(reflect.DeepEqual(cfg2.session.LocaleIDs, locales0) && reflect.DeepEqual(DefaultSessionConfig().LocaleIDs, locales0), "a client created later inherits another client's locales")
	vfAssert(cfg1.session.LocaleIDs[0] == "de", "the locale option is not applied")
	// nothing mutable is shared between the two configurations
	vfAssert(cfg1.dialer != cfg2.dialer && cfg1.dialer.ClientACK != cfg2.dialer.ClientACK && cfg1.dialer.Dialer != cfg2.dialer.Dialer &&
		cfg1.sechan != cfg2.sechan && cfg1.session != cfg2.session && cfg1.session.ClientDescription != cfg2.session.ClientDescription,
		"two client configurations share mutable state")
	// configuring the second client does not reach back into the first
	_, err = ApplyConfig(MaxMessageSize(a+1), SendBufferSize(d+1), Locales("fr"), ApplicationName("three"))
	vfAssert(cfg1.session.LocaleIDs[0] == "de" && reflect.DeepEqual(cfg2.session.LocaleIDs, locales0) && cfg1.session.ClientDescription.ApplicationName.Text == "one",
		"configuring another client changed an existing client's session configuration")
	vfAssert(cfg1.dialer.ClientACK.MaxMessageSize == a && cfg1.dialer.ClientACK.SendBufSize == d, "configuring another client changed an existing client's configuration")
	vfReach("isolated")
}
