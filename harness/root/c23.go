package opcua

import (
	"reflect"
	"time"

	"github.com/gopcua/opcua/ua"
	"github.com/gopcua/opcua/uacp"
)

// C23 — client options affect only the client they are applied to.
func VerifH_C23_Options() {
	before := *uacp.DefaultClientACK
	locales0 := append([]string{}, DefaultSessionConfig().LocaleIDs...)
	a, b, c, d := vfU32("maxMsg"), vfU32("maxChunks"), vfU32("recvBuf"), vfU32("sendBuf")
	lt, rt, st := vfU32("lifetimeMs"), vfU32("reqTimeoutMs"), vfU32("sessTimeoutMs")
	cfg1, err := ApplyConfig(
		MaxMessageSize(a), MaxChunkCount(b), ReceiveBufferSize(c), SendBufferSize(d),
		Lifetime(time.Duration(lt)*time.Millisecond), RequestTimeout(time.Duration(rt)*time.Millisecond), SessionTimeout(time.Duration(st)*time.Millisecond),
		ApplicationName("one"), ApplicationURI("urn:one"), ProductURI("urn:p1"), SessionName("s1"), Locales("de"),
		AutoReconnect(false), ReconnectInterval(time.Duration(rt)*time.Millisecond), DialTimeout(time.Duration(rt)*time.Millisecond),
		SecurityMode(ua.MessageSecurityModeNone), SecurityPolicy("None"), AuthAnonymous(),
	)
	vfAssert(err == nil && cfg1 != nil, "ApplyConfig fails")
	// the option values reached the first client
	vfAssert(cfg1.dialer.ClientACK.MaxMessageSize == a && cfg1.dialer.ClientACK.MaxChunkCount == b &&
		cfg1.dialer.ClientACK.ReceiveBufSize == c && cfg1.dialer.ClientACK.SendBufSize == d, "buffer options are not applied to the client they were given to")
	// package-level defaults are unchanged
	after := *uacp.DefaultClientACK
	vfAssert(after == before, "configuring one client changed the package-level default Acknowledge")
	// a client created afterwards sees the documented defaults
	cfg2, err := ApplyConfig()
	vfAssert(err == nil && cfg2 != nil, "ApplyConfig() fails")
	vfAssert(*cfg2.dialer.ClientACK == before, "a client created later inherits another client's buffer options")
	def := DefaultClientConfig()
	vfAssert(cfg2.sechan.Lifetime == def.Lifetime && cfg2.sechan.RequestTimeout == def.RequestTimeout && cfg2.sechan.AutoReconnect == def.AutoReconnect &&
		cfg2.sechan.ReconnectInterval == def.ReconnectInterval && cfg2.sechan.SecurityMode == def.SecurityMode && cfg2.sechan.SecurityPolicyURI == def.SecurityPolicyURI,
		"a client created later inherits another client's channel options")
	ds := DefaultSessionConfig()
	vfAssert(cfg2.session.SessionTimeout == ds.SessionTimeout && cfg2.session.SessionName == ds.SessionName, "a client created later inherits another client's session options")
	vfAssert(reflect.DeepEqual(cfg2.session.LocaleIDs, locales0) && reflect.DeepEqual(DefaultSessionConfig().LocaleIDs, locales0), "a client created later inherits another client's locales")
	vfAssert(cfg1.session.LocaleIDs[0] == "de", "the locale option is not applied")
	// nothing mutable is shared between the two configurations
	vfAssert(cfg1.dialer != cfg2.dialer && cfg1.dialer.ClientACK != cfg2.dialer.ClientACK && cfg1.dialer.Dialer != cfg2.dialer.Dialer &&
		cfg1.sechan != cfg2.sechan && cfg1.session != cfg2.session && cfg1.session.ClientDescription != cfg2.session.ClientDescription,
		"two client configurations share mutable state")
	// configuring the second client does not reach back into the first
	_, err = ApplyConfig(MaxMessageSize(a+1), SendBufferSize(d+1), Locales("fr"), ApplicationName("three"))
	vfAssert(cfg1.session.LocaleIDs[0] == "de" && reflect.DeepEqual(cfg2.session.LocaleIDs, locales0) && cfg1.session.ClientDescription.ApplicationName.Text == "one",
		"configuring another client changed an existing client's session configuration")
	vfAssert(cfg1.dialer.ClientACK.MaxMessageSize == a && cfg1.dialer.ClientACK.SendBufSize == d, "configuring another client changed an existing client's configuration")
	vfReach("isolated")
}

// The same Option values applied to two clients (opts := []Option{...}; NewClient(a, opts...);
// NewClient(b, opts...)): a later per-client option on the second client must not reach the
// first one, and the two configurations share no identity token, locale list or description.
func VerifH_C23_ReusedOptions() {
	var auth Option
	kind := vfConcrete(vfInt("auth", 0, 3))
	switch kind {
	case 0:
		auth = AuthAnonymous()
	case 1:
		auth = AuthUsername("user", "secret")
	case 2:
		auth = AuthCertificate([]byte{1, 2, 3})
	case 3:
		auth = AuthIssuedToken([]byte{4, 5, 6})
	}
	opts := []Option{auth, ApplicationName("app"), ApplicationURI("urn:app"), Locales("de", "en"), SessionName("s"), MaxMessageSize(vfU32("maxMsg"))}
	cfg1, err := ApplyConfig(opts...)
	vfAssert(err == nil && cfg1 != nil, "ApplyConfig fails")
	cfg2, err := ApplyConfig(append(append([]Option{}, opts...), AuthPolicyID("second"), ApplicationName("other"), Locales("fr"))...)
	vfAssert(err == nil && cfg2 != nil, "ApplyConfig fails for the second client")
	if cfg1 == nil || cfg2 == nil {
		return
	}
	policyID := func(t interface{}) string {
		switch x := t.(type) {
		case *ua.AnonymousIdentityToken:
			return x.PolicyID
		case *ua.UserNameIdentityToken:
			return x.PolicyID
		case *ua.X509IdentityToken:
			return x.PolicyID
		case *ua.IssuedIdentityToken:
			return x.PolicyID
		}
		return "?"
	}
	vfAssert(policyID(cfg2.session.UserIdentityToken) == "second", "AuthPolicyID is not applied to the client it was given to")
	vfAssert(policyID(cfg1.session.UserIdentityToken) == "", "a per-client option of the second client changed the first client's identity token")
	vfAssert(cfg1.session.ClientDescription.ApplicationName.Text == "app" && len(cfg1.session.LocaleIDs) == 2 && cfg1.session.LocaleIDs[0] == "de",
		"a per-client option of the second client changed the first client's session configuration")
	vfAssert(cfg1.session != cfg2.session && cfg1.session.ClientDescription != cfg2.session.ClientDescription && cfg1.dialer.ClientACK != cfg2.dialer.ClientACK,
		"two clients configured from the same options share mutable state")
	vfReach("reused")
}
