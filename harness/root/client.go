package opcua

import (
	"context"
	"time"

	"github.com/gopcua/opcua/ua"
	"github.com/gopcua/opcua/uacp"
	"github.com/gopcua/opcua/uasc"
)

// vfConnectedClient: a Client whose secure channel (policy None) was opened by the real
// OpenSecureChannel exchange against the repository's own server-side channel over a
// modelled pipe. The scripted server answers every request with respond(req) (nil = no answer).
func vfConnectedClient(respond func(req ua.Request) ua.Response) *Client {
	c, _ := vfConnectedClientSec("", ua.MessageSecurityModeNone, func(ssc *uasc.SecureChannel, req ua.Request) ua.Response { return respond(req) })
	return c
}

// vfSecEnv: the key material of a secured connection (nil for policy None).
type vfSecEnv struct {
	clientKey, serverKey, otherKey    *vfRSAPriv
	clientCert, serverCert, otherCert []byte
}

// vfConnectedClientSec: the same for any policy / mode; with a secured policy the asymmetric
// OpenSecureChannel exchange (certificates, RSA, key derivation) runs on both ends.
func vfConnectedClientSec(policy string, mode ua.MessageSecurityMode, respond func(ssc *uasc.SecureChannel, req ua.Request) ua.Response) (*Client, *vfSecEnv) {
	a, b := vfTCPPair("cl")
	ack := &uacp.Acknowledge{ReceiveBufSize: 65535, SendBufSize: 65535, MaxChunkCount: 64, MaxMessageSize: 1 << 22}
	cconn, err := uacp.NewConn(a, ack)
	vfAssert(err == nil, "NewConn fails")
	sconn, _ := uacp.NewConn(b, ack)
	opts := []Option{SecurityMode(mode), AutoReconnect(false), RequestTimeout(time.Second)}
	scfg := &uasc.Config{SecurityPolicyURI: ua.SecurityPolicyURINone, SecurityMode: ua.MessageSecurityModeNone, Lifetime: 3600000}
	var env *vfSecEnv
	if mode != ua.MessageSecurityModeNone {
		env = &vfSecEnv{clientKey: vfRSAKey("client", 256), serverKey: vfRSAKey("server", 256), otherKey: vfRSAKey("other", 256)}
		env.clientCert, env.serverCert, env.otherCert = vfCert("client", env.clientKey), vfCert("server", env.serverKey), vfCert("other", env.otherKey)
		opts = append(opts, SecurityPolicy(policy), Certificate(env.clientCert), PrivateKey(env.clientKey), RemoteCertificate(env.serverCert))
		scfg.Certificate, scfg.LocalKey = env.serverCert, env.serverKey
	}
	c, err := NewClient("opc.tcp://h:4840", opts...)
	vfAssert(err == nil && c != nil, "NewClient fails")
	sc, err := uasc.NewSecureChannel(c.endpointURL, cconn, c.cfg.sechan, c.sechanErr)
	vfAssert(err == nil && sc != nil, "NewSecureChannel fails")
	errs := make(chan error, 8)
	ssc, err := uasc.NewServerSecureChannel("", sconn, scfg, errs, 7, 3, 9)
	vfAssert(err == nil && ssc != nil, "NewServerSecureChannel fails")
	go func() {
		for {
			msg := ssc.Receive(context.Background())
			if msg == nil || msg.Err != nil {
				return
			}
			req := msg.Request()
			if req == nil {
				continue // the OpenSecureChannel request was handled inside Receive
			}
			if resp := respond(ssc, req); resp != nil {
				ssc.SendResponseWithContext(context.Background(), msg.RequestID, resp)
			}
		}
	}()
	err = sc.Open(context.Background())
	vfAssert(err == nil, "opening the secure channel fails")
	c.conn = cconn
	c.setSecureChannel(sc)
	return c, env
}

func vfRH() *ua.ResponseHeader {
	return &ua.ResponseHeader{ServiceDiagnostics: &ua.DiagnosticInfo{}, AdditionalHeader: ua.NewExtensionObject(nil)}
}

// exported for harnesses of other packages (monitor): a connected client against a scripted
// server, and the publish loop that Connect would have started
func VfClient(respond func(req ua.Request) ua.Response) *Client { return vfConnectedClient(respond) }
func VfStartPublishLoop(ctx context.Context, c *Client)         { go c.monitorSubscriptions(ctx) }
func VfResponseHeader() *ua.ResponseHeader                      { return vfRH() }
