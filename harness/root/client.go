package opcua

import (
	"context"
	"time"

	"github.com/gopcua/opcua/ua"
	"github.com/gopcua/opcua/uacp"
	"github.com/gopcua/opcua/uasc"
)

// vfConnectedClient: a Client whose secure channel (policy None) was opened by the real
// OpenSecureChannel exchange against the repository's own server-side channel over a
// modelled pipe. The scripted server answers every request with respond(req) (nil = no answer).
func vfConnectedClient(respond func(req ua.Request) ua.Response) *Client {
	a, b := vfTCPPair("cl")
	ack := &uacp.Acknowledge{ReceiveBufSize: 65535, SendBufSize: 65535, MaxChunkCount: 64, MaxMessageSize: 1 << 22}
	cconn, err := uacp.NewConn(a, ack)
	vfAssert(err == nil, "NewConn fails")
	sconn, _ := uacp.NewConn(b, ack)
	c, err := NewClient("opc.tcp://h:4840", SecurityMode(ua.MessageSecurityModeNone), AutoReconnect(false), RequestTimeout(time.Second))
	vfAssert(err == nil && c != nil, "NewClient fails")
	sc, err := uasc.NewSecureChannel(c.endpointURL, cconn, c.cfg.sechan, c.sechanErr)
	vfAssert(err == nil && sc != nil, "NewSecureChannel fails")
	errs := make(chan error, 8)
	ssc, err := uasc.NewServerSecureChannel("", sconn, &uasc.Config{SecurityPolicyURI: ua.SecurityPolicyURINone, SecurityMode: ua.MessageSecurityModeNone, Lifetime: 3600000}, errs, 7, 3, 9)
	vfAssert(err == nil && ssc != nil, "NewServerSecureChannel fails")
	go func() {
		for {
			msg := ssc.Receive(context.Background())
			if msg == nil || msg.Err != nil {
				return
			}
			req := msg.Request()
			if req == nil {
				continue // the OpenSecureChannel request was handled inside Receive
			}
			if resp := respond(req); resp != nil {
				ssc.SendResponseWithContext(context.Background(), msg.RequestID, resp)
			}
		}
	}()
	err = sc.Open(context.Background())
	vfAssert(err == nil, "opening the secure channel fails")
	c.conn = cconn
	c.setSecureChannel(sc)
	return c
}

func vfRH() *ua.ResponseHeader {
	return &ua.ResponseHeader{ServiceDiagnostics: &ua.DiagnosticInfo{}, AdditionalHeader: ua.NewExtensionObject(nil)}
}
