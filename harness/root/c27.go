package opcua

import (
	"context"

	"github.com/gopcua/opcua/ua"
)

// C27 — subscription API calls and the publish loop never deadlock.
//
// The real publish loop (monitorSubscriptions -> publish -> sendPublishRequest) runs against a
// scripted server over a real channel while API calls (Subscribe, Cancel, a repeated Cancel,
// ForgetSubscription) are made from one or two goroutines. The server answers a Publish request
// with Bad_NoSubscription when it holds no subscription and otherwise leaves it outstanding
// (it times out on the client). Obligations, for every explored interleaving: every API call
// returns, and after the calls a fresh subscription gets the publish loop to send a Publish
// request again. "Blocked forever" is decided by the executor: every goroutine is blocked and
// no timer inside the scenario's time horizon is pending.
func VerifH_C27_NoDeadlock() {
	vfFixedClock(true)
	vfTimeHorizon(10 * 60 * 1000) // channel token renewal (45 min) is outside the scenario
	vfPreempt(false)
	nextSub, publishes := uint32(5), 0
	dataOnce := false
	live := map[uint32]bool{} // the subscriptions the server holds
	published := make(chan struct{}, 64)
	c := vfConnectedClient(func(req ua.Request) ua.Response {
		switch r := req.(type) {
		case *ua.CreateSubscriptionRequest:
			id := nextSub
			nextSub++
			live[id] = true
			return &ua.CreateSubscriptionResponse{ResponseHeader: vfRH(), SubscriptionID: id, RevisedPublishingInterval: 100, RevisedLifetimeCount: 10, RevisedMaxKeepAliveCount: 3}
		case *ua.DeleteSubscriptionsRequest:
			res := &ua.DeleteSubscriptionsResponse{ResponseHeader: vfRH()}
			for _, id := range r.SubscriptionIDs {
				if live[id] {
					delete(live, id)
					res.Results = append(res.Results, ua.StatusOK)
				} else {
					res.Results = append(res.Results, ua.StatusBadSubscriptionIDInvalid)
				}
			}
			return res
		case *ua.PublishRequest:
			publishes++
			select {
			case published <- struct{}{}:
			default:
			}
			if len(live) == 0 {
				h := vfRH()
				h.ServiceResult = ua.StatusBadNoSubscription
				return &ua.ServiceFault{ResponseHeader: h}
			}
			if dataOnce {
				// one data change notification, which the application is slow to pick up
				dataOnce = false
				any := uint32(0)
				for id := range live {
					any = id
				}
				return &ua.PublishResponse{ResponseHeader: vfRH(), SubscriptionID: any, NotificationMessage: &ua.NotificationMessage{SequenceNumber: 1,
					NotificationData: []*ua.ExtensionObject{ua.NewExtensionObject(&ua.DataChangeNotification{MonitoredItems: []*ua.MonitoredItemNotification{{ClientHandle: 1, Value: &ua.DataValue{EncodingMask: ua.DataValueValue, Value: ua.MustVariant(int32(1))}}}})}}}
			}
			if h := r.RequestHeader.TimeoutHint; h == 0 || h > 60000 {
				// the client would wait (practically) for ever: the server's keep-alive comes first
				any := uint32(0)
				for id := range live {
					any = id
				}
				return &ua.PublishResponse{ResponseHeader: vfRH(), SubscriptionID: any, NotificationMessage: &ua.NotificationMessage{SequenceNumber: 1}}
			}
			return nil // stays outstanding until the client gives up on it
		}
		return &ua.ServiceFault{ResponseHeader: vfRH()}
	})
	ctx, cancel := context.WithCancel(context.Background())
	defer cancel()
	go c.monitorSubscriptions(ctx)
	notif := make(chan *PublishNotificationData, 8)
	subscribe := func() *Subscription {
		sub, err := c.Subscribe(ctx, &SubscriptionParameters{}, notif)
		vfAssert(err == nil && sub != nil, "Subscribe fails")
		return sub
	}
	vfPreempt(true)
	switch vfConcrete(vfInt("script", 0, vfParam("c27.scripts", 6)-1)) {
	case 0: // a subscription is cancelled twice
		s := subscribe()
		s.Cancel(ctx)
		s.Cancel(ctx)
	case 2: // subscribe / cancel, twice in a row
		subscribe().Cancel(ctx)
		subscribe().Cancel(ctx)
	case 3: // forgotten (not deleted on the server), then cancelled
		s := subscribe()
		c.ForgetSubscription(ctx, s.SubscriptionID)
		s.Cancel(ctx)
	case 5: // a data change the application has not read yet (unbuffered channel), then Cancel from the same goroutine
		dataOnce = true
		slow := make(chan *PublishNotificationData)
		sub, err := c.Subscribe(ctx, &SubscriptionParameters{}, slow)
		vfAssert(err == nil && sub != nil, "Subscribe fails")
		if sub != nil {
			<-published // the publish request that is answered with the data change
			vfSettle()  // the notification is now waiting to be delivered
			sub.Cancel(ctx)
			// the application does pick its notifications up eventually (a consumer that never
			// reads blocks the delivery, and with it the loop, by design)
			go func() {
				for range slow {
				}
			}()
		}
	case 4: // two application goroutines
		done := make(chan bool, 2)
		for i := 0; i < 2; i++ {
			go func() {
				subscribe().Cancel(ctx)
				done <- true
			}()
		}
		<-done
		<-done
	case 1: // two subscriptions; one is cancelled twice, the other one stays
		a := subscribe()
		subscribe()
		a.Cancel(ctx)
		a.Cancel(ctx)
	}
	vfReach("returned")
	if vfParam("c27.quietTail", 0) == 1 {
		vfPreempt(false) // deeper tiers: forced context switches only while the API calls run
	}
	drain := func() {
		for len(published) > 0 {
			<-published
		}
	}
	// a subscription that is still registered keeps the loop publishing
	c.subMux.RLock()
	remaining := len(c.subs)
	c.subMux.RUnlock()
	if remaining > 0 {
		drain()
		<-published
		vfReach("survivor")
	}
	// a fresh subscription must get the loop publishing again
	drain()
	subscribe()
	<-published
	vfReach("live")
}
