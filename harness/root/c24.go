package opcua

import "github.com/gopcua/opcua/ua"

// C24 — SelectEndpoint returns a best matching endpoint.

var vfC24Policies = []string{
	"http://opcfoundation.org/UA/SecurityPolicy#None",
	"http://opcfoundation.org/UA/SecurityPolicy#Basic256Sha256",
	"http://opcfoundation.org/UA/SecurityPolicy#Aes256_Sha256_RsaPss",
	"",
	"urn:unknown-policy",
}

// queries: (text given by the caller, URI it denotes per the documentation: short name or URI)
var vfC24Queries = [][2]string{
	{"", ""},
	{"None", "http://opcfoundation.org/UA/SecurityPolicy#None"},
	{"Basic256Sha256", "http://opcfoundation.org/UA/SecurityPolicy#Basic256Sha256"},
	{"http://opcfoundation.org/UA/SecurityPolicy#Aes256_Sha256_RsaPss", "http://opcfoundation.org/UA/SecurityPolicy#Aes256_Sha256_RsaPss"},
	{"Aes256Sha256RsaPss", "http://opcfoundation.org/UA/SecurityPolicy#Aes256_Sha256_RsaPss"},
	{"Basic128Rsa15", "http://opcfoundation.org/UA/SecurityPolicy#Basic128Rsa15"},
}

func VerifH_C24_Select() {
	n := vfConcrete(vfInt("n", 0, vfParam("c24.n", 3)))
	eps := make([]*ua.EndpointDescription, n)
	orig := make([]*ua.EndpointDescription, n)
	for i := range eps {
		pi := vfConcrete(vfInt("policy", 0, len(vfC24Policies)-1))
		mode := vfU32("mode")
		vfAssume(mode <= 3)
		eps[i] = &ua.EndpointDescription{
			SecurityPolicyURI: vfC24Policies[pi],
			SecurityMode:      ua.MessageSecurityMode(mode),
			SecurityLevel:     vfU8("level"),
		}
		orig[i] = eps[i]
	}
	qi := vfConcrete(vfInt("query", 0, len(vfC24Queries)-1))
	qmode := vfU32("qmode")
	vfAssume(qmode <= 3)
	qtext, quri := vfC24Queries[qi][0], vfC24Queries[qi][1]

	r, err := SelectEndpoint(eps, qtext, ua.MessageSecurityMode(qmode))

	match := func(p *ua.EndpointDescription) bool {
		return (quri == "" || p.SecurityPolicyURI == quri) && (qmode == 0 || uint32(p.SecurityMode) == qmode)
	}
	any := false
	for _, p := range orig {
		if match(p) {
			any = true
		}
	}
	if !any {
		vfAssert(err != nil && r == nil, "SelectEndpoint succeeds although no endpoint matches the query")
		vfReach("nomatch")
		return
	}
	vfAssert(err == nil && r != nil, "SelectEndpoint fails although an endpoint matches the query")
	if err != nil || r == nil {
		return
	}
	isInput := false
	for _, p := range orig {
		if p == r {
			isInput = true
		}
	}
	vfAssert(isInput, "SelectEndpoint returned an endpoint that is not in the list")
	vfAssert(match(r), "SelectEndpoint returned an endpoint that does not match the query")
	for _, p := range orig {
		if match(p) {
			vfAssert(p.SecurityLevel <= r.SecurityLevel, "a matching endpoint with a higher security level exists")
		}
	}
	vfReach("match")
}
