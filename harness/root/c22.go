package opcua

import (
	"context"

	"github.com/gopcua/opcua/ua"
	"github.com/gopcua/opcua/uapolicy"
	"github.com/gopcua/opcua/uasc"
)

// C22 — a session is established only after the server proves its identity.
//
// A secured channel is opened by the real asymmetric OpenSecureChannel exchange; the scripted
// server answers CreateSession with a session signature that is valid, corrupted, empty, made
// with another key, or made over other data. Then the client runs what Connect does next:
// CreateSession followed by ActivateSession.
func VerifH_C22_ServerSignature() {
	vfCryptoInjective(true) // collision-resistant digests: a signature over other data has another digest
	policies := []string{"Basic256Sha256", "Basic128Rsa15", "Aes256_Sha256_RsaPss", "Aes128_Sha256_RsaOaep", "Basic256"}
	policy := policies[vfConcrete(vfInt("policy", 0, vfParam("c22.policies", 1)-1))]
	uri := ua.FormatSecurityPolicyURI(policy)
	mode := ua.MessageSecurityMode(vfConcrete(vfInt("mode", 2, 3)))
	kind := vfConcrete(vfInt("signature", 0, 5))
	var env *vfSecEnv
	var c *Client
	c, env = vfConnectedClientSec(policy, mode, func(ssc *uasc.SecureChannel, req ua.Request) ua.Response {
		switch r := req.(type) {
		case *ua.CreateSessionRequest:
			sig, alg, err := ssc.NewSessionSignature(r.ClientCertificate, r.ClientNonce)
			vfAssert(err == nil && len(sig) > 0, "the server cannot create its session signature")
			switch kind {
			case 1: // corrupted
				sig = append([]byte{}, sig...)
				d := vfU8("delta")
				vfAssume(d != 0)
				sig[vfConcrete(vfInt("pos", 0, 2))*100] ^= d
			case 2: // empty
				sig = nil
			case 3: // made with a different private key
				enc, _ := uapolicy.Asymmetric(uri, env.otherKey, &env.clientKey.PublicKey)
				sig, _ = enc.Signature(append(append([]byte{}, r.ClientCertificate...), r.ClientNonce...))
			case 5: // genuine, with surplus bytes appended
				sig = append(append([]byte{}, sig...), vfU8("surplus"))
			case 4: // made over other data (another nonce)
				other := append([]byte{}, r.ClientNonce...)
				other[0] ^= 1
				sig, _, _ = ssc.NewSessionSignature(r.ClientCertificate, other)
			}
			return &ua.CreateSessionResponse{ResponseHeader: vfRH(), SessionID: ua.NewNumericNodeID(1, 1), AuthenticationToken: ua.NewNumericNodeID(0, 77),
				RevisedSessionTimeout: 60000, ServerNonce: make([]byte, 32), ServerCertificate: env.serverCert,
				ServerSignature: &ua.SignatureData{Algorithm: alg, Signature: sig}}
		case *ua.ActivateSessionRequest:
			return &ua.ActivateSessionResponse{ResponseHeader: vfRH(), ServerNonce: make([]byte, 32)}
		}
		return &ua.ServiceFault{ResponseHeader: vfRH()}
	})
	ctx := context.Background()
	// what Connect does after opening the channel
	s, err := c.CreateSession(ctx, c.cfg.session)
	if err == nil {
		err = c.ActivateSession(ctx, s)
	}
	if kind == 0 {
		vfAssert(err == nil && c.Session() != nil, "connecting fails although the server signature is valid")
		vfReach("accepted")
		return
	}
	vfAssert(err != nil, "connecting succeeds although the server's session signature does not verify")
	vfAssert(c.Session() == nil, "a session is in place although the server did not prove its identity")
	vfReach("rejected")
}
