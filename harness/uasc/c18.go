package uasc

import (
	"context"
	"time"

	"github.com/gopcua/opcua/ua"
	"github.com/gopcua/opcua/uacp"
)

// C18 / C19 — request/response correlation and timeouts (kernel): one caller, the real
// dispatcher goroutine, a scripted peer stream.

// vfC18Client: an open client channel (policy None) over a pipe. The scripted peer reads
// `after[i]` requests before it writes frames[i] (a server answers a request only after it
// has received it), then stays silent.
func vfC18Script(after []int, frames [][]byte) *vfEnd {
	a, b := vfTCPPair("c18")
	e := vfNewEndOn(a, client, -1, ua.MessageSecurityModeNone, nil, nil, vfC09Ack, 5, 9, 1)
	e.sc.cfg.RequestTimeout = time.Second
	pc, _ := uacp.NewConn(b, vfC09Ack)
	go func() {
		seen := 0
		for i := range frames {
			for seen < after[i] {
				if _, err := pc.Receive(); err != nil {
					return
				}
				seen++
			}
			pc.Write(frames[i])
		}
	}()
	return e
}

func vfC18Client(stream []byte) *vfEnd {
	if len(stream) == 0 {
		return vfC18Script(nil, nil)
	}
	return vfC18Script([]int{1}, [][]byte{stream})
}

func vfRespChunk(reqID uint32, handle uint32, status ua.StatusCode, seq uint32) []byte {
	resp := vfC07Resp([]byte{1, 2, 3})
	resp.ResponseHeader.RequestHandle = handle
	resp.ResponseHeader.ServiceResult = status
	plain, _ := ua.Encode(resp)
	typeID, _ := ua.Encode(ua.NewFourByteExpandedNodeID(0, 470))
	return vfChunk('F', 5, 9, seq, reqID, append(typeID, plain...))
}

func vfPending(sc *SecureChannel) int {
	sc.handlersMu.Lock()
	defer sc.handlersMu.Unlock()
	return len(sc.handlers)
}

// The peer answers with an arbitrary request id: the caller gets the response iff it is its own.
func VerifH_C18_Correlation() {
	rid := vfU32("responseRequestID")
	var stream []byte
	if vfBool("unsolicitedFirst") {
		other := vfU32("otherID")
		vfAssume(other != 1) // 1 is the id this caller will get (request id seed 0)
		stream = append(stream, vfRespChunk(other, 1, ua.StatusOK, 10)...)
	}
	stream = append(stream, vfRespChunk(rid, 77, ua.StatusOK, 11)...)
	e := vfC18Client(stream)
	go e.sc.dispatcher()
	mine := e.sc.requestID + 1 // the id nextRequestID hands out next
	vfAssert(mine == 1, "unexpected first request id")
	var got ua.Response
	calls := 0
	err := e.sc.SendRequestWithTimeout(context.Background(), &ua.ActivateSessionRequest{ClientSignature: &ua.SignatureData{}}, nil, time.Second, func(r ua.Response) error {
		calls++
		got = r
		return nil
	})
	if rid == mine {
		vfAssert(err == nil && calls == 1 && got != nil && got.Header().RequestHandle == 77, "the caller does not receive the response to its own request")
		vfReach("answered")
	} else {
		vfAssert(err != nil && calls == 0, "a response for another request id is handed to this caller")
		vfReach("notmine")
	}
	vfAssert(vfPending(e.sc) == 0, "a pending slot is left behind after the call returned")
}

// C19: no response at all: the call returns Bad_Timeout after timeout + leniency and releases its slot;
// a service fault / bad status in the response is reported as an error.
func VerifH_C19_Timeout() {
	var stream []byte
	late := vfBool("faultInstead")
	if late {
		stream = vfRespChunk(1, 77, ua.StatusBadNodeIDUnknown, 11)
	}
	e := vfC18Client(stream)
	go e.sc.dispatcher()
	timeout := time.Duration(vfU32("timeoutMs")) * time.Millisecond
	vfGhostSet("timer.last.d", -1)
	err := e.sc.SendRequestWithTimeout(context.Background(), &ua.ActivateSessionRequest{ClientSignature: &ua.SignatureData{}}, nil, timeout, func(r ua.Response) error { return nil })
	vfAssert(err != nil, "a call without a usable response returns no error")
	if late {
		vfAssert(err == ua.StatusBadNodeIDUnknown, "the service result of the response is not reported to the caller")
		vfReach("fault")
	} else {
		vfAssert(err == ua.StatusBadTimeout, "a missing response is not reported as a timeout")
		d := int64(vfGhostGet("timer.last.d"))
		vfAssert(d == int64(timeout)+int64(250*time.Millisecond), "the request timer is not timeout + 250ms leniency")
		vfReach("timeout")
	}
	vfAssert(vfPending(e.sc) == 0, "a pending slot is left behind after the call returned")
}

// two concurrent callers, responses in either order: each call returns the response that echoes
// its own request handle (newRequestMessage sets the handle to the request id).
func VerifH_C18_TwoCallers() {
	var stream []byte
	if vfBool("swapped") {
		stream = append(vfRespChunk(2, 2, ua.StatusOK, 10), vfRespChunk(1, 1, ua.StatusOK, 11)...)
	} else {
		stream = append(vfRespChunk(1, 1, ua.StatusOK, 10), vfRespChunk(2, 2, ua.StatusOK, 11)...)
	}
	e := vfC18Script([]int{2}, [][]byte{stream})
	go e.sc.dispatcher()
	done := make(chan bool, 2)
	for i := 0; i < 2; i++ {
		go func() {
			req := &ua.ActivateSessionRequest{ClientSignature: &ua.SignatureData{}}
			var got ua.Response
			n := 0
			err := e.sc.SendRequestWithTimeout(context.Background(), req, nil, time.Second, func(r ua.Response) error { n++; got = r; return nil })
			vfAssert(err == nil && n == 1 && got != nil, "a concurrent call does not get exactly one response")
			if got != nil {
				vfAssert(got.Header().RequestHandle == req.RequestHeader.RequestHandle, "a call received the response to another caller's request")
			}
			done <- true
		}()
	}
	<-done
	<-done
	vfAssert(vfPending(e.sc) == 0, "a pending slot is left behind")
	vfReach("both")
}

// request ids: never 0, +1 with wrap-around; an id that is still pending is not registered twice
func VerifH_C18_RequestID() {
	e := vfC18Client(nil)
	pre := vfU32("counter")
	e.sc.requestID = pre
	id := e.sc.nextRequestID()
	vfAssert(id != 0, "request id 0 handed out")
	vfAssert(id == pre+1 || (pre == 4294967295 && id == 1), "request ids do not increase by one")
	// two consecutive requests never share an id (also right after the wrap)
	id2 := e.sc.nextRequestID()
	vfAssert(id2 != 0 && id2 != id, "two consecutive requests get the same request id")
	vfAssert(id2 == id+1 || (id == 4294967295 && id2 == 1), "request ids do not increase by one")
	id = id2
	// a response channel registered under the next id (e.g. after a wrap): the new request must be refused, not overwrite it
	old := make(chan *MessageBody, 1)
	e.sc.handlers[id+1] = old
	if id+1 != 0 {
		err := e.sc.SendRequestWithTimeout(context.Background(), &ua.ActivateSessionRequest{ClientSignature: &ua.SignatureData{}}, nil, time.Second, func(r ua.Response) error { return nil })
		vfAssert(err != nil, "a request id that is still pending is registered a second time")
		vfAssert(e.sc.handlers[id+1] == old, "the pending handler was replaced")
		vfReach("duplicate")
	}
}

// C19: the response to the first call may arrive while its timer fires; whatever happens to
// the first call, the channel must still deliver the response to the second call.
func VerifH_C19_LateResponse() {
	e := vfC18Script([]int{1, 2}, [][]byte{vfRespChunk(1, 1, ua.StatusOK, 10), vfRespChunk(2, 2, ua.StatusOK, 11)})
	go e.sc.dispatcher()
	req := func() *ua.ActivateSessionRequest { return &ua.ActivateSessionRequest{ClientSignature: &ua.SignatureData{}} }
	vfTimerRace(true) // the first call's timer may fire at any moment, also while its response is being delivered
	err1 := e.sc.SendRequestWithTimeout(context.Background(), req(), nil, time.Second, func(r ua.Response) error { return nil })
	vfTimerRace(false)
	vfAssert(err1 == nil || err1 == ua.StatusBadTimeout, "unexpected outcome of the first call")
	if err1 != nil {
		vfReach("firstTimedOut")
	}
	n := 0
	err2 := e.sc.SendRequestWithTimeout(context.Background(), req(), nil, time.Second, func(r ua.Response) error { n++; return nil })
	vfAssert(err2 == nil && n == 1, "after a timed-out request the channel no longer delivers responses")
	vfAssert(vfPending(e.sc) == 0, "a pending slot is left behind")
	vfReach("second")
}

// C19: a request that fails while it is being sent (here: its context has already ended)
// releases everything it took: no pending slot, and the channel's pending-request count is back
// to zero — a token renewal waits for that count and would otherwise block every later request.
func VerifH_C19_FailedSend() {
	e := vfC18Client(nil)
	go e.sc.dispatcher()
	ctx, cancel := context.WithCancel(context.Background())
	cancel()
	err := e.sc.SendRequestWithTimeout(ctx, &ua.ActivateSessionRequest{ClientSignature: &ua.SignatureData{}}, nil, time.Second, func(r ua.Response) error { return nil })
	if err == nil {
		vfReach("sentAnyway")
		return
	}
	vfAssert(vfPending(e.sc) == 0, "a request that failed to be sent leaves a pending slot behind")
	e.sc.pendingReq.Wait() // returns at once unless the failed request is still counted (then: deadlock)
	vfReach("released")
}

// C18: the peer answers the pending request id with a well-formed message whose body is not a
// response at all (an echoed request). The call must not succeed silently: either it returns an
// error, or its handler has been called (with no response) so that the caller can refuse it.
func VerifH_C18_NonResponseBody() {
	req := &ua.ActivateSessionRequest{RequestHeader: &ua.RequestHeader{AuthenticationToken: ua.NewTwoByteNodeID(0), AdditionalHeader: ua.NewExtensionObject(nil)}, ClientSignature: &ua.SignatureData{},
		UserIdentityToken: ua.NewExtensionObject(nil), UserTokenSignature: &ua.SignatureData{}}
	plain, _ := ua.Encode(req)
	typeID, _ := ua.Encode(ua.NewFourByteExpandedNodeID(0, ua.ServiceTypeID(req)))
	e := vfC18Client(vfChunk('F', 5, 9, 11, 1, append(typeID, plain...)))
	go e.sc.dispatcher()
	calls := 0
	var got ua.Response
	err := e.sc.SendRequestWithTimeout(context.Background(), &ua.ActivateSessionRequest{ClientSignature: &ua.SignatureData{}}, nil, time.Second, func(r ua.Response) error {
		calls++
		got = r
		return nil
	})
	vfAssert(err != nil || (calls == 1 && got == nil), "a reply that is not a response lets the call succeed without anybody having seen it")
	vfAssert(vfPending(e.sc) == 0, "a pending slot is left behind after the call returned")
	vfReach("handled")
}
