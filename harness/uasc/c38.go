package uasc

import (
	"github.com/gopcua/opcua/ua"
	"github.com/gopcua/opcua/uapolicy"
)

// C38 — a maximal chunk body always fits the negotiated chunk size.

var vfSymPolicies = []string{
	ua.SecurityPolicyURIBasic128Rsa15,
	ua.SecurityPolicyURIBasic256,
	ua.SecurityPolicyURIBasic256Sha256,
	ua.SecurityPolicyURIAes128Sha256RsaOaep,
	ua.SecurityPolicyURIAes256Sha256RsaPss,
}

// vfSymNonceLen is the SecureChannelNonceLength of each policy (Part 7 limits tables).
var vfSymNonceLen = []int{16, 32, 32, 32, 32}

func vfSymInstance(pi int, mode ua.MessageSecurityMode) *channelInstance {
	uri := vfSymPolicies[pi]
	ln := vfBytes("localNonce", vfSymNonceLen[pi])
	rn := vfBytes("remoteNonce", vfSymNonceLen[pi])
	algo, err := uapolicy.Symmetric(uri, ln, rn)
	vfAssert(err == nil && algo != nil, "uapolicy.Symmetric fails for a supported policy")
	sc := &SecureChannel{cfg: &Config{SecurityPolicyURI: uri, SecurityMode: mode}}
	return &channelInstance{sc: sc, algo: algo, state: channelActive, secureChannelID: 1, securityTokenID: 1}
}

func vfMsgHeader() *Message {
	return &Message{MessageHeader: &MessageHeader{
		Header:                  NewHeader(MessageTypeMessage, ChunkTypeFinal, 1),
		SymmetricSecurityHeader: NewSymmetricSecurityHeader(1),
		SequenceHeader:          NewSequenceHeader(1, 1),
	}}
}

func VerifH_C38_MaxBodyFits() {
	vfOpaqueAlloc(true)
	pi := vfConcrete(vfInt("policy", 0, len(vfSymPolicies)-1))
	mode := ua.MessageSecurityMode(vfConcrete(vfInt("mode", 2, 3)))
	cs := vfInt("chunkSize", 8192, 1<<31-1)
	ci := vfSymInstance(pi, mode)
	ci.SetMaximumBodySize(cs)
	mbs := int(ci.maxBodySize)
	vfAssert(mbs > 0 && mbs < cs, "maximum body size is not positive or not below the chunk size")

	// header(12) + symmetric security header(4) + sequence header(8) + body
	m := vfMsgHeader()
	b := vfOpaqueBytes("chunk", 24+mbs)
	out, err := ci.signAndEncrypt(m, b)
	vfAssert(err == nil, "signAndEncrypt fails on a maximal body")
	if err != nil {
		return
	}
	vfAssert(len(out) <= cs, "secured chunk with a maximal body exceeds the chunk size")
	vfAssert(int(m.Header.MessageSize) == len(out), "MessageSize differs from the secured chunk length")
	if mode == ua.MessageSecurityModeSignAndEncrypt {
		vfAssert((len(out)-16)%ci.algo.BlockSize() == 0, "encrypted region is not a whole number of cipher blocks")
	}
	vfReach("fits")

	if mode == ua.MessageSecurityModeSignAndEncrypt {
		m2 := vfMsgHeader()
		b2 := vfOpaqueBytes("chunk+1", 24+mbs+1)
		out2, err2 := ci.signAndEncrypt(m2, b2)
		if err2 == nil {
			vfAssert(len(out2) > cs, "one more body byte still fits: maximum body size is not maximal")
			vfReach("plusone")
		}
	}
}

// policy None: chunks are sent as is.
func VerifH_C38_None() {
	vfOpaqueAlloc(true)
	cs := vfInt("chunkSize", 8192, 1<<31-1)
	algo, err := uapolicy.Symmetric(ua.SecurityPolicyURINone, nil, nil)
	vfAssert(err == nil && algo != nil, "uapolicy.Symmetric(None) fails")
	sc := &SecureChannel{cfg: &Config{SecurityPolicyURI: ua.SecurityPolicyURINone, SecurityMode: ua.MessageSecurityModeNone}}
	ci := &channelInstance{sc: sc, algo: algo}
	ci.SetMaximumBodySize(cs)
	mbs := int(ci.maxBodySize)
	vfAssert(mbs > 0 && mbs < cs, "maximum body size is not positive or not below the chunk size")
	m := vfMsgHeader()
	out, err := ci.signAndEncrypt(m, vfOpaqueBytes("chunk", 24+mbs))
	vfAssert(err == nil && len(out) <= cs, "unsecured chunk with a maximal body exceeds the chunk size")
	vfReach("fits")
}
