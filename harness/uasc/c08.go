package uasc

import (
	"context"
	"crypto"
	"crypto/aes"
	"crypto/rsa"
	"crypto/cipher"
	"crypto/hmac"
	"crypto/rand"
	"crypto/sha1"
	"crypto/sha256"
	"encoding/binary"
	"hash"

	"github.com/gopcua/opcua/ua"
	"github.com/gopcua/opcua/uacp"
	"github.com/gopcua/opcua/uapolicy"
	"time"
)

// C08 — secured symmetric chunks conform to the OPC UA Part 6 wire layout.
//
// An independent implementation of the layout, written here from Part 6 (6.7.2 message
// chunk structure, 6.7.5 key derivation) and the Part 7 algorithm tables, using only the
// standard library primitives: it opens every chunk gopcua emits (SymSend) and seals chunks
// that gopcua must accept (SymReceive). It shares no code with uasc / uapolicy.

type vfRefSpec struct {
	newHash              func() hash.Hash
	sigKeyLen, encKeyLen int
	sigLen               int
}

// in the order of vfSymPolicies: Basic128Rsa15, Basic256, Basic256Sha256, Aes128_Sha256_RsaOaep, Aes256_Sha256_RsaPss
var vfRefSpecs = []vfRefSpec{
	{sha1.New, 16, 16, 20},
	{sha1.New, 24, 32, 20},
	{sha256.New, 32, 32, 32},
	{sha256.New, 32, 16, 32},
	{sha256.New, 32, 32, 32},
}

type vfRefKeys struct{ sign, enc, iv []byte }

func vfRefHMAC(h func() hash.Hash, key, data []byte) []byte {
	m := hmac.New(h, key)
	m.Write(data)
	return m.Sum(nil)
}

// P_SHA (RFC 5246 section 5): A(0) = seed, A(i) = HMAC(secret, A(i-1)); output = HMAC(secret, A(1)+seed) + HMAC(secret, A(2)+seed) ...
func vfRefPSHA(h func() hash.Hash, secret, seed []byte, n int) []byte {
	var out []byte
	a := seed
	for len(out) < n {
		a = vfRefHMAC(h, secret, a)
		out = append(out, vfRefHMAC(h, secret, append(append([]byte{}, a...), seed...))...)
	}
	return out[:n]
}

// keys securing the messages of the side whose nonce is `own` (Part 6 table: secret = the other side's nonce, seed = own nonce)
func vfRefDerive(sp vfRefSpec, own, other []byte) vfRefKeys {
	k := vfRefPSHA(sp.newHash, other, own, sp.sigKeyLen+sp.encKeyLen+16)
	return vfRefKeys{sign: k[:sp.sigKeyLen], enc: k[sp.sigKeyLen : sp.sigKeyLen+sp.encKeyLen], iv: k[sp.sigKeyLen+sp.encKeyLen:]}
}

// vfRefOpen verifies and opens one symmetric chunk; it returns the plain sequence header fields and body.
func vfRefOpen(wire []byte, sp vfRefSpec, k vfRefKeys, mode ua.MessageSecurityMode) (seq, reqID uint32, body []byte) {
	vfAssert(len(wire) >= 24, "reference: chunk shorter than its headers")
	vfAssert(string(wire[:3]) == "MSG", "reference: message type is not MSG")
	vfAssert(int(binary.LittleEndian.Uint32(wire[4:8])) == len(wire), "reference: MessageSize differs from the chunk length")
	plain := append([]byte{}, wire[16:]...) // everything after message header and symmetric security header
	if mode == ua.MessageSecurityModeSignAndEncrypt {
		vfAssert(len(plain)%16 == 0 && len(plain) > 0, "reference: the encrypted part is not a whole number of cipher blocks")
		blk, err := aes.NewCipher(k.enc)
		vfAssert(err == nil, "reference: bad AES key length")
		cipher.NewCBCDecrypter(blk, k.iv).CryptBlocks(plain, plain)
	}
	end := len(plain)
	if mode != ua.MessageSecurityModeNone {
		vfAssert(len(plain) >= 8+sp.sigLen, "reference: no room for the signature")
		end -= sp.sigLen
		signed := append(append([]byte{}, wire[:16]...), plain[:end]...)
		vfAssert(string(vfRefHMAC(sp.newHash, k.sign, signed)) == string(plain[end:]), "reference: the signature is not the HMAC over message header .. padding with the sender's signing key")
	}
	if mode == ua.MessageSecurityModeSignAndEncrypt {
		pad := int(plain[end-1])
		vfAssert(end-1-pad >= 8, "reference: PaddingSize exceeds the chunk")
		for i := end - 1 - pad; i < end; i++ {
			vfAssert(int(plain[i]) == pad, "reference: a padding byte differs from PaddingSize")
		}
		end -= 1 + pad
	}
	return binary.LittleEndian.Uint32(plain[0:4]), binary.LittleEndian.Uint32(plain[4:8]), plain[8:end]
}

// vfRefSeal builds one final symmetric chunk the way Part 6 describes it.
func vfRefSeal(chanID, tokenID, seq, reqID uint32, body []byte, sp vfRefSpec, k vfRefKeys, mode ua.MessageSecurityMode) []byte {
	plain := make([]byte, 8)
	binary.LittleEndian.PutUint32(plain[0:], seq)
	binary.LittleEndian.PutUint32(plain[4:], reqID)
	plain = append(plain, body...)
	sig := 0
	if mode != ua.MessageSecurityModeNone {
		sig = sp.sigLen
	}
	if mode == ua.MessageSecurityModeSignAndEncrypt {
		pad := (16 - (len(plain)+1+sig)%16) % 16
		for i := 0; i <= pad; i++ {
			plain = append(plain, byte(pad)) // PaddingSize byte followed by PaddingSize padding bytes, all with that value
		}
	}
	hdr := make([]byte, 16)
	copy(hdr, "MSGF")
	binary.LittleEndian.PutUint32(hdr[4:], uint32(16+len(plain)+sig))
	binary.LittleEndian.PutUint32(hdr[8:], chanID)
	binary.LittleEndian.PutUint32(hdr[12:], tokenID)
	if mode != ua.MessageSecurityModeNone {
		plain = append(plain, vfRefHMAC(sp.newHash, k.sign, append(append([]byte{}, hdr...), plain...))...)
	}
	if mode == ua.MessageSecurityModeSignAndEncrypt {
		blk, _ := aes.NewCipher(k.enc)
		cipher.NewCBCEncrypter(blk, k.iv).CryptBlocks(plain, plain)
	}
	return append(hdr, plain...)
}

func vfC08Body(nonce []byte) []byte {
	typeID, _ := ua.Encode(ua.NewFourByteExpandedNodeID(0, ua.ServiceTypeID(vfC07Resp(nil))))
	b, _ := ua.Encode(vfC07Resp(nonce))
	return append(typeID, b...)
}

var vfC08Ack = &uacp.Acknowledge{ReceiveBufSize: 8192, SendBufSize: 8192, MaxChunkCount: 16, MaxMessageSize: 1 << 20}

// every chunk gopcua sends is verified and opened by the reference
func VerifH_C08_SymSend() {
	pi := vfConcrete(vfInt("policy", 0, vfParam("c08.policies", len(vfSymPolicies))-1))
	mode := ua.MessageSecurityMode(vfConcrete(vfInt("mode", 2, 3)))
	cn, sn := vfNonces(pi)
	seq := vfU32("seq")
	vfAssume(seq <= vfMaxSeq)
	snd := vfNewEnd("snd", server, pi, mode, sn, cn, vfC08Ack, nil, 5, 9, seq)
	nonce := vfBytes("nonce", vfConcrete(vfInt("bodyLen", 0, vfParam("c08.lens", 17))))
	err := snd.sc.SendMsgWithContext(context.Background(), snd.inst, 77, vfC07Resp(nonce))
	vfAssert(err == nil && vfTCPWrites(snd.tcp) == 1, "sending a small message does not produce exactly one chunk")
	if err != nil {
		return
	}
	wire := vfTCPFrame(snd.tcp, 0)
	sp := vfRefSpecs[pi]
	vfAssert(wire[3] == 'F' && binary.LittleEndian.Uint32(wire[8:12]) == 5 && binary.LittleEndian.Uint32(wire[12:16]) == 9, "chunk flag, channel id or token id are not where Part 6 puts them")
	gotSeq, gotReq, body := vfRefOpen(wire, sp, vfRefDerive(sp, sn, cn), mode) // sent by the server: server keys
	vfAssert((gotSeq == seq+1 || (seq >= 4294966271 && gotSeq < 1024)) && gotReq == 77, "sequence header is not the first part of the secured region")
	vfAssert(string(body) == string(vfC08Body(nonce)), "the body recovered by the reference differs from the encoded message")
	vfReach("opened")
}

// gopcua accepts every chunk the reference produces for the same keys
func VerifH_C08_SymReceive() {
	pi := vfConcrete(vfInt("policy", 0, vfParam("c08.policies", len(vfSymPolicies))-1))
	mode := ua.MessageSecurityMode(vfConcrete(vfInt("mode", 2, 3)))
	cn, sn := vfNonces(pi)
	sp := vfRefSpecs[pi]
	nonce := vfBytes("nonce", vfConcrete(vfInt("bodyLen", 0, vfParam("c08.lens", 17))))
	seq := vfU32("seq")
	vfAssume(seq >= 1 && seq <= vfMaxSeq)
	wire := vfRefSeal(5, 9, seq, 77, vfC08Body(nonce), sp, vfRefDerive(sp, sn, cn), mode) // the reference plays the server
	rcv := vfNewEnd("rcv", client, pi, mode, cn, sn, vfC08Ack, wire, 5, 9, 0)
	msg := rcv.sc.Receive(context.Background())
	vfAssert(msg != nil && msg.Err == nil, "gopcua rejects a chunk that follows the Part 6 layout")
	if msg == nil || msg.Err != nil {
		return
	}
	got, ok := msg.Response().(*ua.ActivateSessionResponse)
	vfAssert(ok && got != nil && msg.RequestID == 77, "gopcua decodes another message from the reference's chunk")
	if ok && got != nil {
		vfAssert(string(got.ServerNonce) == string(nonce), "gopcua recovers another body from the reference's chunk")
	}
	vfReach("accepted")
}

// ---- asymmetric (OpenSecureChannel) chunks ----

// Part 7 asymmetric suites, in the order of vfSymPolicies
type vfRefAsym struct {
	sigHash   crypto.Hash // hash of the RSA signature
	pss       bool        // RSASSA-PSS instead of PKCS#1 v1.5
	encScheme int         // 0: RSA-PKCS15, 1: RSA-OAEP-SHA1, 2: RSA-OAEP-SHA256
}

var vfRefAsyms = []vfRefAsym{
	{crypto.SHA1, false, 0},
	{crypto.SHA1, false, 1},
	{crypto.SHA256, false, 1},
	{crypto.SHA256, false, 1},
	{crypto.SHA256, true, 2},
}

func vfRefDigest(h crypto.Hash, data []byte) []byte {
	hh := sha256.New()
	if h == crypto.SHA1 {
		hh = sha1.New()
	}
	hh.Write(data)
	return hh.Sum(nil)
}

// vfRefOpenAsym opens an OPN chunk sent to the holder of recv by the holder of the key behind sender.
func vfRefOpenAsym(wire []byte, uri string, as vfRefAsym, recv *vfRSAPriv, sender *rsa.PublicKey, senderCert []byte) (seq, reqID uint32, body []byte) {
	vfAssert(string(wire[:4]) == "OPNF", "reference: not a final OPN chunk")
	vfAssert(int(binary.LittleEndian.Uint32(wire[4:8])) == len(wire), "reference: MessageSize differs from the chunk length")
	// asymmetric security header: SecurityPolicyUri, SenderCertificate, ReceiverCertificateThumbprint
	off := 12
	rd := func() []byte {
		n := int(int32(binary.LittleEndian.Uint32(wire[off:])))
		off += 4
		if n < 0 {
			return nil
		}
		b := wire[off : off+n]
		off += n
		return b
	}
	vfAssert(string(rd()) == uri, "reference: SecurityPolicyUri is not the first field of the security header")
	vfAssert(string(rd()) == string(senderCert), "reference: SenderCertificate is not the sender's certificate")
	thumb := rd()
	vfAssert(len(thumb) == 20, "reference: ReceiverCertificateThumbprint is not a SHA-1 thumbprint")
	hdr := wire[:off]
	// decrypt block by block with the receiver's private key
	k := recv.PublicKey.Size()
	enc := wire[off:]
	vfAssert(len(enc) > 0 && len(enc)%k == 0, "reference: the encrypted part is not a whole number of RSA blocks of the receiver's key size")
	var plain []byte
	for i := 0; i+k <= len(enc); i += k {
		var p []byte
		var err error
		switch as.encScheme {
		case 0:
			p, err = rsa.DecryptPKCS1v15(nil, recv, enc[i:i+k])
		case 1:
			p, err = rsa.DecryptOAEP(sha1.New(), nil, recv, enc[i:i+k], nil)
		default:
			p, err = rsa.DecryptOAEP(sha256.New(), nil, recv, enc[i:i+k], nil)
		}
		vfAssert(err == nil, "reference: an RSA block does not decrypt with the receiver's key under the policy's scheme")
		plain = append(plain, p...)
	}
	// signature with the sender's key over header + plaintext up to the signature
	sigLen := sender.Size()
	vfAssert(len(plain) >= 8+sigLen+1, "reference: no room for padding and signature")
	end := len(plain) - sigLen
	digest := vfRefDigest(as.sigHash, append(append([]byte{}, hdr...), plain[:end]...))
	var verr error
	if as.pss {
		verr = rsa.VerifyPSS(sender, as.sigHash, digest, plain[end:], nil)
	} else {
		verr = rsa.VerifyPKCS1v15(sender, as.sigHash, digest, plain[end:])
	}
	vfAssert(verr == nil, "reference: the signature does not verify with the sender's key over message header .. padding")
	// padding: PaddingSize [, ExtraPaddingSize when the receiver's key is longer than 2048 bits]
	pad := 0
	if k > 256 {
		pad = int(plain[end-1])<<8 | int(plain[end-2])
		vfAssert(end-2-pad >= 8, "reference: padding exceeds the chunk")
		for i := end - 2 - pad; i < end-1; i++ {
			vfAssert(plain[i] == byte(pad), "reference: a padding byte differs from the low byte of the padding size")
		}
		end -= 2 + pad
	} else {
		pad = int(plain[end-1])
		vfAssert(end-1-pad >= 8, "reference: padding exceeds the chunk")
		for i := end - 1 - pad; i < end; i++ {
			vfAssert(plain[i] == byte(pad), "reference: a padding byte differs from PaddingSize")
		}
		end -= 1 + pad
	}
	return binary.LittleEndian.Uint32(plain[0:4]), binary.LittleEndian.Uint32(plain[4:8]), plain[8:end]
}

// every OpenSecureChannel request gopcua sends is opened by the reference with the server's key
func VerifH_C08_AsymSend() {
	pi := vfConcrete(vfInt("policy", 0, vfParam("c08.policies", len(vfSymPolicies))-1))
	uri := vfSymPolicies[pi]
	sizes := [][]int{{128, 256}, {128, 256}, {256, 384, 512}, {256, 384, 512}, {256, 384, 512}}[pi]
	ka := sizes[vfConcrete(vfInt("clientKey", 0, len(sizes)-1))]
	kb := sizes[vfConcrete(vfInt("serverKey", 0, len(sizes)-1))]
	keyA, keyB := vfRSAKey("client", ka), vfRSAKey("server", kb)
	certA, certB := vfCert("client", keyA), vfCert("server", keyB)
	ctcp := vfTCP("cli", nil)
	cconn, _ := uacp.NewConn(ctcp, vfC08Ack)
	ccfg := &Config{SecurityPolicyURI: uri, SecurityMode: ua.MessageSecurityModeSignAndEncrypt, Certificate: certA, LocalKey: keyA,
		RemoteCertificate: certB, Thumbprint: uapolicy.Thumbprint(certB), RequestTimeout: time.Second}
	cerr := make(chan error, 4)
	csc, err := NewSecureChannel("opc.tcp://h:4840", cconn, ccfg, cerr)
	vfAssert(err == nil, "NewSecureChannel rejects a valid configuration")
	algo, err := uapolicy.Asymmetric(uri, keyA, &keyB.PublicKey)
	vfAssert(err == nil && algo != nil, "Asymmetric fails for keys inside the policy range")
	if algo == nil {
		return
	}
	ci := newChannelInstance(csc)
	ci.algo = algo
	ci.SetMaximumBodySize(int(cconn.SendBufSize()))
	nonce := vfBytes("clientNonce", algo.NonceLength())
	req := &ua.OpenSecureChannelRequest{RequestType: ua.SecurityTokenRequestTypeIssue, SecurityMode: ua.MessageSecurityModeSignAndEncrypt, ClientNonce: nonce, RequestedLifetime: vfU32("lifetime")}
	_, err = csc.sendAsyncWithTimeout(context.Background(), req, 1, ci, nil, false, time.Second)
	vfAssert(err == nil && vfTCPWrites(ctcp) == 1, "sending the OpenSecureChannel request does not produce one chunk")
	if err != nil {
		return
	}
	_, reqID, body := vfRefOpenAsym(vfTCPFrame(ctcp, 0), uri, vfRefAsyms[pi], keyB, &keyA.PublicKey, certA)
	want, _ := ua.Encode(req)
	typeID, _ := ua.Encode(ua.NewFourByteExpandedNodeID(0, 446))
	vfAssert(reqID == 1 && string(body) == string(typeID)+string(want), "the body recovered by the reference differs from the encoded request")
	vfReach("opened")
}

// vfRefSealAsym builds an OPN chunk from sender (private key, certificate) to the holder of recv, as Part 6 describes it.
func vfRefSealAsym(uri string, as vfRefAsym, sender *vfRSAPriv, senderCert []byte, recv *rsa.PublicKey, recvThumb []byte, seq, reqID uint32, body []byte) []byte {
	hdr := make([]byte, 12)
	copy(hdr, "OPNF")
	put := func(b []byte) {
		var l [4]byte
		binary.LittleEndian.PutUint32(l[:], uint32(len(b)))
		hdr = append(append(hdr, l[:]...), b...)
	}
	put([]byte(uri))
	put(senderCert)
	put(recvThumb)
	k := recv.Size()
	overhead := []int{11, 42, 66}[as.encScheme]
	pb := k - overhead // plaintext block size
	sigLen := sender.PublicKey.Size()
	plain := make([]byte, 8)
	binary.LittleEndian.PutUint32(plain[0:], seq)
	binary.LittleEndian.PutUint32(plain[4:], reqID)
	plain = append(plain, body...)
	padBytes := 1
	if k > 256 {
		padBytes = 2
	}
	pad := (pb - (len(plain)+padBytes+sigLen)%pb) % pb
	for i := 0; i <= pad; i++ {
		plain = append(plain, byte(pad))
	}
	if padBytes == 2 {
		plain = append(plain, byte(pad>>8))
	}
	blocks := (len(plain) + sigLen) / pb
	binary.LittleEndian.PutUint32(hdr[4:], uint32(len(hdr)+blocks*k)) // MessageSize is the size on the wire
	digest := vfRefDigest(as.sigHash, append(append([]byte{}, hdr...), plain...))
	var sig []byte
	if as.pss {
		sig, _ = rsa.SignPSS(rand.Reader, sender, as.sigHash, digest, &rsa.PSSOptions{SaltLength: rsa.PSSSaltLengthEqualsHash})
	} else {
		sig, _ = rsa.SignPKCS1v15(rand.Reader, sender, as.sigHash, digest)
	}
	plain = append(plain, sig...)
	out := append([]byte{}, hdr...)
	for i := 0; i+pb <= len(plain); i += pb {
		var c []byte
		switch as.encScheme {
		case 0:
			c, _ = rsa.EncryptPKCS1v15(rand.Reader, recv, plain[i:i+pb])
		case 1:
			c, _ = rsa.EncryptOAEP(sha1.New(), rand.Reader, recv, plain[i:i+pb], nil)
		default:
			c, _ = rsa.EncryptOAEP(sha256.New(), rand.Reader, recv, plain[i:i+pb], nil)
		}
		out = append(out, c...)
	}
	return out
}

// gopcua (server side) accepts every OpenSecureChannel chunk the reference produces
func VerifH_C08_AsymReceive() {
	pi := vfConcrete(vfInt("policy", 0, vfParam("c08.policies", len(vfSymPolicies))-1))
	uri := vfSymPolicies[pi]
	sizes := [][]int{{128, 256}, {128, 256}, {256, 384, 512}, {256, 384, 512}, {256, 384, 512}}[pi]
	ka := sizes[vfConcrete(vfInt("clientKey", 0, len(sizes)-1))]
	kb := sizes[vfConcrete(vfInt("serverKey", 0, len(sizes)-1))]
	keyA, keyB := vfRSAKey("client", ka), vfRSAKey("server", kb)
	certA, certB := vfCert("client", keyA), vfCert("server", keyB)
	nonceLen := []int{16, 32, 32, 32, 32}[pi]
	req := &ua.OpenSecureChannelRequest{RequestHeader: &ua.RequestHeader{AuthenticationToken: ua.NewTwoByteNodeID(0), AdditionalHeader: ua.NewExtensionObject(nil)}, RequestType: ua.SecurityTokenRequestTypeIssue,
		SecurityMode: ua.MessageSecurityModeSignAndEncrypt, ClientNonce: vfBytes("clientNonce", nonceLen), RequestedLifetime: vfU32("lifetime")}
	want, _ := ua.Encode(req)
	typeID, _ := ua.Encode(ua.NewFourByteExpandedNodeID(0, 446))
	body := append(append([]byte{}, typeID...), want...)
	wire := vfRefSealAsym(uri, vfRefAsyms[pi], keyA, certA, &keyB.PublicKey, uapolicy.Thumbprint(certB), 1, 1, body)
	vfAssert(len(wire) <= 8192, "the reference chunk exceeds the chunk size")

	stcp := vfTCP("srv", wire)
	sconn, _ := uacp.NewConn(stcp, vfC08Ack)
	scfg := &Config{SecurityPolicyURI: ua.SecurityPolicyURINone, SecurityMode: ua.MessageSecurityModeNone, Certificate: certB, LocalKey: keyB, Lifetime: 3600000}
	serr := make(chan error, 4)
	ssc, err := NewServerSecureChannel("", sconn, scfg, serr, 7, 3, 9)
	vfAssert(err == nil && ssc != nil, "NewServerSecureChannel fails")
	chunk, err := ssc.readChunk()
	vfAssert(err == nil && chunk != nil, "gopcua rejects an OpenSecureChannel chunk that follows the Part 6 layout")
	if err != nil || chunk == nil {
		return
	}
	vfAssert(string(chunk.Data) == string(body), "gopcua recovers another body from the reference's chunk")
	vfAssert(chunk.SequenceHeader != nil && chunk.SequenceHeader.RequestID == 1 && chunk.SequenceHeader.SequenceNumber == 1, "gopcua recovers another sequence header from the reference's chunk")
	vfReach("accepted")
}
