package uasc

import (
	"context"

	"github.com/gopcua/opcua/ua"
)

// C20 — messages delivered to the application never change afterwards.
//
// Two messages (the first single- or two-chunk) arrive back to back on one channel. Everything
// reachable from the first delivered message is frozen; any later store into it — by the
// receive buffer handling, decryption, reassembly or decoding of the second message — is a
// violation. The first message is also compared with its expected content at the end.
func VerifH_C20_Delivered() {
	vfCryptoInjective(true)
	pm := vfConcrete(vfInt("policyMode", 0, 2))
	pi, mode := -1, ua.MessageSecurityModeNone
	var cn, sn []byte
	if pm > 0 {
		pi, mode = 2, ua.MessageSecurityMode(1+pm)
		cn, sn = vfC09Nonces(pi)
	}
	snd := vfNewEnd("snd", server, pi, mode, sn, cn, vfC09Ack, nil, 5, 9, 10)
	n1 := 3
	if vfBool("firstIsMultiChunk") {
		n1 = int(snd.inst.maxBodySize) + 5
	}
	p1 := vfBytes("payload1", 3)
	body1 := make([]byte, n1)
	copy(body1, p1)
	p2 := vfBytes("payload2", 3)
	body2 := p2
	if vfBool("secondIsMultiChunk") {
		body2 = make([]byte, int(snd.inst.maxBodySize)+2)
		copy(body2, p2)
	}
	e1 := snd.sc.SendMsgWithContext(context.Background(), snd.inst, 77, vfC07Resp(body1))
	e2 := snd.sc.SendMsgWithContext(context.Background(), snd.inst, 78, vfC07Resp(body2))
	vfAssert(e1 == nil && e2 == nil, "sending fails")
	rcv := vfNewEnd("rcv", client, pi, mode, cn, sn, vfC09Ack, vfTCPWritten(snd.tcp), 5, 9, 0)
	m1 := rcv.sc.Receive(context.Background())
	vfAssert(m1 != nil && m1.Err == nil, "first message rejected")
	if m1 == nil || m1.Err != nil {
		return
	}
	r1, ok := m1.Response().(*ua.ActivateSessionResponse)
	vfAssert(ok && r1 != nil, "first message has the wrong type")
	if !ok || r1 == nil {
		return
	}
	vfFreeze(m1, "message 1")
	m2 := rcv.sc.Receive(context.Background())
	vfAssert(m2 != nil && m2.Err == nil && m2.RequestID == 78, "second message rejected")
	vfAssert(len(r1.ServerNonce) == n1 && r1.ServerNonce[0] == p1[0] && r1.ServerNonce[1] == p1[1] && r1.ServerNonce[2] == p1[2], "the first message changed after the second arrived")
	vfReach("unchanged")
}
