package uasc

import (
	"context"
	"time"

	"github.com/gopcua/opcua/ua"
	"github.com/gopcua/opcua/uacp"
)

// C17 — chunks secured with an expired token are rejected.
//
// One step: a channel holds two tokens (old, new). The old token's expiry step runs
// (the real scheduleExpiration with its timer firing). Before it a chunk secured with the
// old token's keys is accepted; after it such a chunk must be rejected, and the new token
// must still be usable. Channel and token ids are symbolic.

func vfC17Msg(snd *vfEnd, handle uint32) {
	resp := vfC07Resp([]byte{1, 2, 3})
	resp.ResponseHeader.RequestHandle = handle
	err := snd.sc.SendMsgWithContext(context.Background(), snd.inst, handle, resp)
	vfAssert(err == nil, "sending fails")
}

func VerifH_C17_Expiry() {
	const pi = 2 // Basic256Sha256
	vfCryptoInjective(true) // different nonces give different keys (collision resistance)
	mode := ua.MessageSecurityMode(vfConcrete(vfInt("mode", 2, 3)))
	ch, t1, t2 := vfU32("channelID"), vfU32("oldToken"), vfU32("newToken")
	vfAssume(t1 != t2 && ch != 0)
	ack := &uacp.Acknowledge{ReceiveBufSize: 8192, SendBufSize: 8192, MaxChunkCount: 16, MaxMessageSize: 1 << 20}
	n1c, n1s := make([]byte, 32), make([]byte, 32)
	n2c, n2s := make([]byte, 32), make([]byte, 32)
	n1c[0], n1s[0], n2c[0], n2s[0] = 1, 2, 3, 4

	// the peer (server role) sends two messages under the old token and one under the new token
	old := vfNewEnd("old", server, pi, mode, n1s, n1c, ack, nil, ch, t1, 10)
	vfC17Msg(old, 101)
	w1 := vfTCPWritten(old.tcp)
	vfC17Msg(old, 102)
	w12 := vfTCPWritten(old.tcp)
	nw := vfNewEnd("new", server, pi, mode, n2s, n2c, ack, nil, ch, t2, 20)
	vfC17Msg(nw, 103)
	w3 := vfTCPWritten(nw.tcp)
	stream := append(append([]byte{}, w12...), w3...)
	_ = w1

	// the receiver (client role) knows both tokens
	rcv := vfNewEnd("rcv", client, pi, mode, n1c, n1s, ack, stream, ch, t1, 0)
	i1 := rcv.inst
	i1.createdAt = time.Now()
	i1.revisedLifetime = time.Duration(vfInt("lifetimeMs", 1, 3600000)) * time.Millisecond
	if !vfSymbolic() {
		i1.revisedLifetime = 40 * time.Millisecond // a native replay has to wait for the real timer
	}
	algo2 := vfNewEnd("rcv2", client, pi, mode, n2c, n2s, ack, nil, ch, t2, 0).inst.algo
	i2 := newChannelInstance(rcv.sc)
	i2.state, i2.secureChannelID, i2.securityTokenID, i2.algo = channelActive, ch, t2, algo2
	i2.SetMaximumBodySize(8192)
	var i0 *channelInstance
	if vfBool("olderTokenPresent") {
		// an even older token that has not expired yet (its lifetime was longer): the expiring one is not the oldest entry
		t0 := vfU32("olderToken")
		vfAssume(t0 != t1 && t0 != t2)
		n0c, n0s := make([]byte, 32), make([]byte, 32)
		n0c[0], n0s[0] = 5, 6
		i0 = newChannelInstance(rcv.sc)
		i0.state, i0.secureChannelID, i0.securityTokenID = channelActive, ch, t0
		i0.algo = vfNewEnd("rcv0", client, pi, mode, n0c, n0s, ack, nil, ch, t0, 0).inst.algo
		i0.SetMaximumBodySize(8192)
		rcv.sc.instances[ch] = append([]*channelInstance{i0}, rcv.sc.instances[ch]...)
	}
	// a late renewal: the old token is still the active one when it expires, the new token
	// arrives afterwards
	late := vfBool("lateRenewal")
	if late {
		rcv.sc.activeInstance = i1
	} else {
		rcv.sc.instances[ch] = append(rcv.sc.instances[ch], i2)
		rcv.sc.activeInstance = i2
	}

	m1 := rcv.sc.Receive(context.Background())
	vfAssert(m1 != nil && m1.Err == nil && m1.RequestID == 101, "a chunk under the old token is rejected before the token expired")

	rcv.sc.scheduleExpiration(i1) // timer fires, the expiry step runs
	if late {
		rcv.sc.instancesMu.Lock()
		rcv.sc.instances[ch] = append(rcv.sc.instances[ch], i2)
		rcv.sc.activeInstance = i2
		rcv.sc.instancesMu.Unlock()
		vfReach("late")
	}

	m2 := rcv.sc.Receive(context.Background())
	vfAssert(m2 != nil && m2.Err != nil, "a chunk secured with an expired token is delivered")
	m3 := rcv.sc.Receive(context.Background())
	vfAssert(m3 != nil && m3.Err == nil && m3.RequestID == 103, "the current token stops working when the old one expires")
	if i0 != nil {
		still := false
		for _, in := range rcv.sc.instances[ch] {
			if in == i0 {
				still = true
			}
		}
		vfAssert(still, "expiry of one token removes another token that has not expired")
		vfReach("middle")
	}
	vfReach("expired")
}
