package uasc

import (
	"context"
	"encoding/binary"

	"github.com/gopcua/opcua/ua"
	"github.com/gopcua/opcua/uacp"
	"github.com/gopcua/opcua/uapolicy"
)

// ---- reference sender for unsecured MSG chunks (Part 6 6.7.2) ----

func vfChunk(typ byte, channel, token, seq, reqID uint32, data []byte) []byte {
	b := make([]byte, 24+len(data))
	copy(b, "MSG")
	b[3] = typ
	binary.LittleEndian.PutUint32(b[4:], uint32(len(b)))
	binary.LittleEndian.PutUint32(b[8:], channel)
	binary.LittleEndian.PutUint32(b[12:], token)
	binary.LittleEndian.PutUint32(b[16:], seq)
	binary.LittleEndian.PutUint32(b[20:], reqID)
	copy(b[24:], data)
	return b
}

// vfNextSeq: the sender's next sequence number per Part 6: +1, and beyond 4294966271 it may
// wrap to any value below 1024 — including 0 (legacy rule still used by conforming peers).
func vfNextSeq(tag string, seq uint32) uint32 {
	if seq >= 4294966271 && vfBool(tag+".wrap") {
		w := vfU32(tag + ".wrapTo")
		vfAssume(w < 1024)
		return w
	}
	vfAssume(seq != 4294967295)
	return seq + 1
}

func vfNoneEnd(tag string, kind channelKind, stream []byte, maxChunks uint32) *vfEnd {
	ack := &uacp.Acknowledge{ReceiveBufSize: 8192, SendBufSize: 8192, MaxChunkCount: maxChunks, MaxMessageSize: 1 << 20}
	return vfNewEnd(tag, kind, -1, ua.MessageSecurityModeNone, nil, nil, ack, stream, 5, 9, 0)
}

// C12 — chunk streams from any conforming peer are reassembled correctly.
//
// The encoded body of one message is cut into two or three chunks at arbitrary points; the
// chunks carry consecutive sequence numbers from an arbitrary start (including the wrap, to
// any value < 1024 incl. 0); optionally a chunk of another request is interleaved, or that
// other request is aborted. The message delivered must be the original one.
func VerifH_C12_Reassembly() {
	resp := vfC07Resp([]byte{9, 8, 7, 6, 5, 4, 3, 2, 1})
	resp.ResponseHeader.RequestHandle = vfU32("handle")
	plain, _ := ua.Encode(resp)
	typeID, _ := ua.Encode(ua.NewFourByteExpandedNodeID(0, 470)) // ActivateSessionResponse_Encoding_DefaultBinary
	body := append(typeID, plain...)
	nchunks := vfConcrete(vfInt("chunks", 2, 3))
	cuts := []int{0, 1, 4, 18, len(body) - 1, len(body)}
	i1 := vfConcrete(vfInt("cut1", 0, len(cuts)-1))
	c1 := cuts[i1]
	c2 := c1
	if nchunks == 3 {
		c2 = cuts[vfConcrete(vfInt("cut2", i1, len(cuts)-1))]
	}
	seq := vfU32("seq")
	rid, other := vfU32("reqID"), vfU32("otherReqID")
	vfAssume(rid != other)
	inter := vfConcrete(vfInt("interleave", 0, 2)) // 0 none, 1 an intermediate chunk of another request, 2 an abort of another request
	var stream []byte
	stream = append(stream, vfChunk('C', 5, 9, seq, rid, body[:c1])...)
	if inter == 1 {
		seq = vfNextSeq("s0", seq)
		stream = append(stream, vfChunk('C', 5, 9, seq, other, []byte{1, 2, 3})...)
	}
	if inter == 2 {
		seq = vfNextSeq("s0", seq)
		abort, _ := (&MessageAbort{ErrorCode: uint32(ua.StatusBadRequestTooLarge), Reason: "x"}).Encode()
		stream = append(stream, vfChunk('A', 5, 9, seq, other, abort)...)
	}
	seq = vfNextSeq("s1", seq)
	if nchunks == 3 {
		stream = append(stream, vfChunk('C', 5, 9, seq, rid, body[c1:c2])...)
		seq = vfNextSeq("s2", seq)
	}
	stream = append(stream, vfChunk('F', 5, 9, seq, rid, body[c2:])...)

	rcv := vfNoneEnd("rcv", client, stream, 16)
	msg := rcv.sc.Receive(context.Background())
	if inter == 2 {
		// the abort of the other request is reported for that request only
		vfAssert(msg != nil && msg.Err != nil && msg.RequestID == other, "an abort chunk is not reported for its own request")
		msg = rcv.sc.Receive(context.Background())
	}
	vfAssert(msg != nil && msg.Err == nil, "a conforming chunk stream is rejected")
	if msg == nil || msg.Err != nil {
		return
	}
	vfAssert(msg.RequestID == rid, "message delivered under the wrong request id")
	got, ok := msg.Response().(*ua.ActivateSessionResponse)
	vfAssert(ok && got != nil, "a conforming chunk stream decodes to another message")
	if ok && got != nil {
		vfAssert(got.ResponseHeader.RequestHandle == resp.ResponseHeader.RequestHandle && string(got.ServerNonce) == string(resp.ServerNonce), "reassembled message differs from the one sent")
	}
	vfReach("reassembled")
}

// C10 — a replayed (or re-ordered) secured chunk is never delivered twice.
func VerifH_C10_Replay() {
	pi, mode, cn, sn := vfC09Setup()
	snd := vfNewEnd("snd", server, pi, mode, sn, cn, vfC09Ack, nil, 5, 9, 10)
	err := snd.sc.SendMsgWithContext(context.Background(), snd.inst, 77, vfC07Resp([]byte{1}))
	w1 := vfTCPWritten(snd.tcp)
	err2 := snd.sc.SendMsgWithContext(context.Background(), snd.inst, 78, vfC07Resp([]byte{2}))
	w12 := vfTCPWritten(snd.tcp)
	vfAssert(err == nil && err2 == nil, "sending fails")
	w2 := w12[len(w1):]
	var stream []byte
	if vfBool("reorder") {
		stream = append(append(append([]byte{}, w1...), w2...), w1...) // first chunk again after a later one
	} else {
		stream = append(append([]byte{}, w1...), w1...) // verbatim replay
	}
	rcv := vfNewEnd("rcv", client, pi, mode, cn, sn, vfC09Ack, stream, 5, 9, 0)
	m1 := rcv.sc.Receive(context.Background())
	vfAssert(m1 != nil && m1.Err == nil, "the original chunk is rejected")
	last := rcv.sc.Receive(context.Background())
	if len(stream) > 2*len(w1) {
		vfAssert(last != nil && last.Err == nil, "the second original chunk is rejected")
		last = rcv.sc.Receive(context.Background())
	}
	vfAssert(last == nil || last.Err != nil, "a replayed chunk is delivered a second time")
	vfReach("replayed")
}

// C13 — memory held for incomplete messages stays bounded by the negotiated limits.
func VerifH_C13_Buffered() {
	k := vfConcrete(vfInt("ids", 1, 4))
	var stream []byte
	seq := uint32(1)
	for i := 0; i < k; i++ {
		stream = append(stream, vfChunk('C', 5, 9, seq, vfU32("reqID"), []byte{1, 2, 3, 4})...)
		seq++
	}
	rcv := vfNoneEnd("rcv", server, stream, 2)
	rcv.sc.Receive(context.Background()) // consumes the whole stream (intermediate chunks only), then EOF
	total := 0
	for _, cs := range rcv.sc.chunks {
		total += len(cs)
	}
	vfAssert(total <= 2, "more chunks are buffered for incomplete messages than the negotiated MaxChunkCount")
	vfReach("buffered")
}

// C13 — OpenSecureChannel chunks with a plausible header but garbage certificate / payload.
func VerifH_C13_OPN() {
	uris := []string{ua.SecurityPolicyURINone, ua.SecurityPolicyURIBasic256Sha256, "urn:unknown"}
	uri := uris[vfConcrete(vfInt("uri", 0, 2))]
	key := vfRSAKey("peer", 256)
	var cert []byte
	switch vfConcrete(vfInt("cert", 0, 3)) {
	case 0:
		cert = vfCert("peer", key)
	case 1:
		cert = vfBytes("badcert", 3)
	case 2:
		cert = vfCertNonRSA("peer") // well-formed certificate, but not an RSA key
	}
	thumb := vfBytes("thumb", vfConcrete(vfInt("thumbLen", 0, 1))*20)
	hdr, _ := NewAsymmetricSecurityHeader(uri, cert, thumb).Encode()
	lens := []int{0, 7, 8, 255, 256, 300}
	if uri == ua.SecurityPolicyURINone {
		lens = []int{0, 7, 8, 10} // unsecured: the payload goes straight to the decoder (C02 covers that)
	}
	payload := vfBytes("payload", lens[vfConcrete(vfInt("payloadLen", 0, len(lens)-1))])
	frame := make([]byte, 12)
	copy(frame, "OPNF")
	frame = append(append(frame, hdr...), payload...)
	binary.LittleEndian.PutUint32(frame[4:], uint32(len(frame)))
	binary.LittleEndian.PutUint32(frame[8:], vfU32("channelID"))

	local := vfRSAKey("local", 256)
	tcp := vfTCP("srv", frame)
	conn, _ := uacp.NewConn(tcp, vfC09Ack)
	cfg := &Config{SecurityPolicyURI: ua.SecurityPolicyURINone, SecurityMode: ua.MessageSecurityModeNone, Certificate: vfCert("local", local), LocalKey: local, Lifetime: 3600000}
	errs := make(chan error, 4)
	ssc, err := NewServerSecureChannel("", conn, cfg, errs, 7, 3, 9)
	vfAssert(err == nil && ssc != nil, "NewServerSecureChannel fails")
	msg := ssc.Receive(context.Background())
	vfAssert(msg != nil, "Receive returns nil")
	_ = uapolicy.SupportedPolicies
	vfReach("survived")
}
