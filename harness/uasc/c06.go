package uasc

import (
	"context"

	"github.com/gopcua/opcua/ua"
	"github.com/gopcua/opcua/uacp"
)

// C06 — message limits on a secure channel (policy None so that crypto is out of the way).

// a sender with unlimited settings produces n chunks; the receiver has limits.
func vfC06Wire(k int) ([]byte, int) {
	ack := &uacp.Acknowledge{ReceiveBufSize: 8192, SendBufSize: 8192}
	snd := vfNewEnd("snd", server, -1, ua.MessageSecurityModeNone, nil, nil, ack, nil, 5, 9, 1)
	nonceLen := (k-1)*int(snd.inst.maxBodySize) + 10
	err := snd.sc.SendMsgWithContext(context.Background(), snd.inst, 77, vfC07Resp(make([]byte, nonceLen)))
	vfAssert(err == nil, "sending fails")
	return vfTCPWritten(snd.tcp), vfTCPWrites(snd.tcp)
}

// receive side: a message is refused iff it exceeds a non-zero limit; zero means no limit.
func VerifH_C06_ReceiveLimits() {
	k := vfConcrete(vfInt("chunks", 1, 3))
	wire, n := vfC06Wire(k)
	vfAssert(n == k, "unexpected chunk count")
	maxChunks := vfU32("maxChunks")
	maxMsg := vfU32("maxMsg")
	ack := &uacp.Acknowledge{ReceiveBufSize: 8192, SendBufSize: 8192, MaxChunkCount: maxChunks, MaxMessageSize: maxMsg}
	rcv := vfNewEnd("rcv", client, -1, ua.MessageSecurityModeNone, nil, nil, ack, wire, 5, 9, 0)
	msg := rcv.sc.Receive(context.Background())
	bodyLen := len(wire) - 24*n
	tooMany := maxChunks != 0 && uint32(n) > maxChunks
	tooBig := maxMsg != 0 && uint32(bodyLen) > maxMsg
	if tooMany || tooBig {
		vfAssert(msg.Err != nil, "a message exceeding the configured limits is delivered")
		vfReach("refused")
	} else {
		vfAssert(msg.Err == nil, "a message within the limits (0 = unlimited) is refused")
		vfReach("accepted")
	}
}

// send side: a message exceeding the peer's limits must be refused before anything is written.
func VerifH_C06_SendLimits() {
	k := vfConcrete(vfInt("chunks", 1, 3))
	maxChunks := vfU32("maxChunks")
	maxMsg := vfU32("maxMsg")
	ack := &uacp.Acknowledge{ReceiveBufSize: 8192, SendBufSize: 8192, MaxChunkCount: maxChunks, MaxMessageSize: maxMsg}
	snd := vfNewEnd("snd", client, -1, ua.MessageSecurityModeNone, nil, nil, ack, nil, 5, 9, 1)
	resp := vfC07Resp(make([]byte, (k-1)*int(snd.inst.maxBodySize)+10))
	plain, _ := ua.Encode(resp)
	bodyLen := 4 + len(plain)
	err := snd.sc.SendMsgWithContext(context.Background(), snd.inst, 77, resp)
	tooMany := maxChunks != 0 && uint32(k) > maxChunks
	tooBig := maxMsg != 0 && uint32(bodyLen) > maxMsg
	if tooMany || tooBig {
		vfAssert(err != nil && vfTCPWrites(snd.tcp) == 0, "a message exceeding the peer's limits is put on the wire")
		vfReach("refused")
	} else {
		vfAssert(err == nil && vfTCPWrites(snd.tcp) == k, "a message within the peer's limits is not sent")
		vfReach("sent")
	}
}
