package uasc

import (
	"context"
	"encoding/binary"

	"github.com/gopcua/opcua/ua"
	"github.com/gopcua/opcua/uacp"
)

// C06 — message limits on a secure channel (policy None so that crypto is out of the way).

// a sender with unlimited settings produces n chunks; the receiver has limits.
func vfC06Wire(k int) ([]byte, int) {
	ack := &uacp.Acknowledge{ReceiveBufSize: 8192, SendBufSize: 8192}
	snd := vfNewEnd("snd", server, -1, ua.MessageSecurityModeNone, nil, nil, ack, nil, 5, 9, 1)
	nonceLen := (k-1)*int(snd.inst.maxBodySize) + 10
	err := snd.sc.SendMsgWithContext(context.Background(), snd.inst, 77, vfC07Resp(make([]byte, nonceLen)))
	vfAssert(err == nil, "sending fails")
	return vfTCPWritten(snd.tcp), vfTCPWrites(snd.tcp)
}

// receive side: a message is refused iff it exceeds a non-zero limit; zero means no limit.
func VerifH_C06_ReceiveLimits() {
	k := vfConcrete(vfInt("chunks", 1, 3))
	wire, n := vfC06Wire(k)
	vfAssert(n == k, "unexpected chunk count")
	maxChunks := vfU32("maxChunks")
	maxMsg := vfU32("maxMsg")
	ack := &uacp.Acknowledge{ReceiveBufSize: 8192, SendBufSize: 8192, MaxChunkCount: maxChunks, MaxMessageSize: maxMsg}
	rcv := vfNewEnd("rcv", client, -1, ua.MessageSecurityModeNone, nil, nil, ack, wire, 5, 9, 0)
	msg := rcv.sc.Receive(context.Background())
	bodyLen := len(wire) - 24*n
	tooMany := maxChunks != 0 && uint32(n) > maxChunks
	tooBig := maxMsg != 0 && uint32(bodyLen) > maxMsg
	if tooMany || tooBig {
		vfAssert(msg.Err != nil, "a message exceeding the configured limits is delivered")
		vfReach("refused")
	} else {
		vfAssert(msg.Err == nil, "a message within the limits (0 = unlimited) is refused")
		vfReach("accepted")
	}
}

// send side: a message exceeding the peer's limits must be refused before anything is written.
func VerifH_C06_SendLimits() {
	k := vfConcrete(vfInt("chunks", 1, 3))
	maxChunks := vfU32("maxChunks")
	maxMsg := vfU32("maxMsg")
	ack := &uacp.Acknowledge{ReceiveBufSize: 8192, SendBufSize: 8192, MaxChunkCount: maxChunks, MaxMessageSize: maxMsg}
	snd := vfNewEnd("snd", client, -1, ua.MessageSecurityModeNone, nil, nil, ack, nil, 5, 9, 1)
	resp := vfC07Resp(make([]byte, (k-1)*int(snd.inst.maxBodySize)+10))
	plain, _ := ua.Encode(resp)
	bodyLen := 4 + len(plain)
	err := snd.sc.SendMsgWithContext(context.Background(), snd.inst, 77, resp)
	tooMany := maxChunks != 0 && uint32(k) > maxChunks
	tooBig := maxMsg != 0 && uint32(bodyLen) > maxMsg
	if tooMany || tooBig {
		vfAssert(err != nil && vfTCPWrites(snd.tcp) == 0, "a message exceeding the peer's limits is put on the wire")
		vfReach("refused")
	} else {
		vfAssert(err == nil && vfTCPWrites(snd.tcp) == k, "a message within the peer's limits is not sent")
		vfReach("sent")
	}
}

// After the secure channel is opened, each side sizes its outgoing chunks by its own send
// buffer (= what the peer can receive after the negotiation), for asymmetric buffer settings.
// Server: the real Receive handles an OpenSecureChannel request (handleOpenSecureChannelRequest),
// then a large response is sent. Client: the real handleOpenSecureChannelResponse, then a large request.
func VerifH_C06_ChunkSizeAfterOpen() {
	vfOpaqueAlloc(true)
	recvBuf, sendBuf := vfU32("recvBuf"), vfU32("sendBuf")
	vfAssume(recvBuf >= 8192 && recvBuf <= 1<<20 && sendBuf >= 8192 && sendBuf <= 1<<20)
	ack := &uacp.Acknowledge{ReceiveBufSize: recvBuf, SendBufSize: sendBuf, MaxChunkCount: 64, MaxMessageSize: 1 << 24}
	bodyLen := vfInt("bodyLen", 0, 3<<20)
	if vfBool("serverSide") {
		req := &ua.OpenSecureChannelRequest{RequestHeader: &ua.RequestHeader{AuthenticationToken: ua.NewTwoByteNodeID(0), RequestHandle: 1}, RequestType: ua.SecurityTokenRequestTypeIssue,
			SecurityMode: ua.MessageSecurityModeNone, RequestedLifetime: 60000}
		plain, _ := ua.Encode(req)
		typeID, _ := ua.Encode(ua.NewFourByteExpandedNodeID(0, 446))
		sec, _ := NewAsymmetricSecurityHeader(ua.SecurityPolicyURINone, nil, nil).Encode()
		body := append(append(append([]byte{}, sec...), make([]byte, 8)...), append(typeID, plain...)...)
		binary.LittleEndian.PutUint32(body[len(sec):], 1)   // sequence number
		binary.LittleEndian.PutUint32(body[len(sec)+4:], 1) // request id
		frame := make([]byte, 12)
		copy(frame, "OPNF")
		frame = append(frame, body...)
		binary.LittleEndian.PutUint32(frame[4:], uint32(len(frame)))
		tcp := vfTCP("srv", frame)
		conn, _ := uacp.NewConn(tcp, ack)
		cfg := &Config{SecurityPolicyURI: ua.SecurityPolicyURINone, SecurityMode: ua.MessageSecurityModeNone, Lifetime: 3600000}
		errs := make(chan error, 4)
		ssc, err := NewServerSecureChannel("", conn, cfg, errs, 7, 3, 9)
		vfAssert(err == nil && ssc != nil, "NewServerSecureChannel fails")
		msg := ssc.Receive(context.Background())
		vfAssert(msg != nil && msg.Err == nil, "a valid OpenSecureChannel request is rejected")
		if msg == nil || msg.Err != nil {
			return
		}
		opened := vfTCPWrites(tcp)
		vfAssert(opened == 1, "no OpenSecureChannel response was sent")
		err = ssc.SendResponseWithContext(context.Background(), 2, vfC07Resp(vfOpaqueBytes("body", bodyLen)))
		vfAssert(err == nil, "sending a response fails")
		for i := opened; i < vfTCPWrites(tcp); i++ {
			vfAssert(vfTCPWriteLen(tcp, i) <= int(sendBuf), "server: a chunk exceeds the send buffer negotiated for this connection")
		}
		vfReach("server")
		return
	}
	e := vfNewEnd("cli", client, -1, ua.MessageSecurityModeNone, nil, nil, ack, nil, 5, 9, 1)
	inst := newChannelInstance(e.sc)
	e.sc.openingInstance = inst
	resp := &ua.OpenSecureChannelResponse{ResponseHeader: &ua.ResponseHeader{}, SecurityToken: &ua.ChannelSecurityToken{ChannelID: 5, TokenID: 10, RevisedLifetime: 60000}}
	e.sc.cfg.Lifetime = 60000
	close(e.sc.closing)
	err := e.sc.handleOpenSecureChannelResponse(resp, nil, inst)
	vfAssert(err == nil, "handleOpenSecureChannelResponse fails")
	err = e.sc.SendMsgWithContext(context.Background(), nil, 3, vfC07Resp(vfOpaqueBytes("body", bodyLen)))
	vfAssert(err == nil, "sending fails")
	for i := 0; i < vfTCPWrites(e.tcp); i++ {
		vfAssert(vfTCPWriteLen(e.tcp, i) <= int(sendBuf), "client: a chunk exceeds the send buffer negotiated for this connection")
	}
	vfReach("client")
}
