package uasc

import (
	"context"
	"encoding/binary"
	"sync"

	"github.com/gopcua/opcua/ua"
)

// C11 — outgoing sequence numbers increase by one per chunk; chunks of one message are not
// interleaved with another's.

func vfSeqOK(prev, next uint32) bool {
	if prev >= vfMaxSeq {
		return next == 1 || next == prev+1 // the counter restarts at 1 beyond MaxUint32-1023
	}
	return next == prev+1
}

func vfCheckWire(e *vfEnd, start uint32) {
	n := vfTCPWrites(e.tcp)
	prev := start
	var lastReq uint32
	seen := map[uint32]bool{}
	for i := 0; i < n; i++ {
		f := vfTCPFrame(e.tcp, i)
		seq := binary.LittleEndian.Uint32(f[16:20])
		req := binary.LittleEndian.Uint32(f[20:24])
		vfAssert(vfSeqOK(prev, seq), "consecutive chunks do not carry consecutive sequence numbers")
		vfAssert(seq != 0, "sequence number 0 is sent")
		prev = seq
		if i > 0 && req != lastReq {
			vfAssert(!seen[req], "chunks of two messages are interleaved")
		}
		seen[req] = true
		lastReq = req
		if i == n-1 {
			vfAssert(f[3] == 'F', "stream does not end with a final chunk")
		}
	}
}

// sequential kernel: arbitrary counter pre-state, two messages of one or two chunks each.
func VerifH_C11_Sequential() {
	start := vfU32("seq")
	vfAssume(start <= vfMaxSeq)
	snd := vfNewEnd("snd", server, -1, ua.MessageSecurityModeNone, nil, nil, vfC09Ack, nil, 5, 9, start)
	for i := 0; i < 2; i++ {
		n := 3
		if vfBool("multi") {
			n = int(snd.inst.maxBodySize) + 5
		}
		err := snd.sc.SendMsgWithContext(context.Background(), snd.inst, uint32(100+i), vfC07Resp(make([]byte, n)))
		vfAssert(err == nil, "sending fails")
	}
	vfCheckWire(snd, start)
	vfReach("sequential")
}

// two concurrent senders on one channel, every schedule with at most the tier's preemption bound.
func VerifH_C11_Concurrent() {
	start := vfU32("seq")
	vfAssume(start <= vfMaxSeq)
	snd := vfNewEnd("snd", server, -1, ua.MessageSecurityModeNone, nil, nil, vfC09Ack, nil, 5, 9, start)
	n := int(snd.inst.maxBodySize) + 5
	api := vfConcrete(vfInt("api", 0, 1)) // both ways a server sends: SendMsgWithContext / SendResponseWithContext
	var wg sync.WaitGroup
	for i := 0; i < 2; i++ {
		wg.Add(1)
		go func(id uint32) {
			defer wg.Done()
			var err error
			if api == 0 {
				err = snd.sc.SendMsgWithContext(context.Background(), nil, id, vfC07Resp(make([]byte, n)))
			} else {
				err = snd.sc.SendResponseWithContext(context.Background(), id, vfC07Resp(make([]byte, n)))
			}
			vfAssert(err == nil, "sending fails")
		}(uint32(200 + i))
	}
	wg.Wait()
	vfAssert(vfTCPWrites(snd.tcp) == 4, "not all chunks were written")
	vfCheckWire(snd, start)
	vfReach("concurrent")
}
