package uasc

import (
	"net"

	"github.com/gopcua/opcua/ua"
	"github.com/gopcua/opcua/uacp"
	"github.com/gopcua/opcua/uapolicy"
)

// vfEnd is one end of an established secure channel, built the way
// handleOpenSecureChannelResponse / handleOpenSecureChannelRequest leave it:
// symmetric algorithm from the two nonces, maximum body size from the send
// buffer, instance registered under its channel id and made active.
type vfEnd struct {
	tcp  *net.TCPConn
	sc   *SecureChannel
	inst *channelInstance
	errs chan error
}

func vfPolicyURI(pi int) string {
	if pi < 0 {
		return ua.SecurityPolicyURINone
	}
	return vfSymPolicies[pi]
}

// vfNewEnd builds a channel end over a TCP model whose peer sends stream.
func vfNewEnd(tag string, kind channelKind, pi int, mode ua.MessageSecurityMode, localNonce, remoteNonce []byte, ack *uacp.Acknowledge, stream []byte, chanID, tokenID, seq uint32) *vfEnd {
	return vfNewEndOn(vfTCP(tag, stream), kind, pi, mode, localNonce, remoteNonce, ack, chanID, tokenID, seq)
}

// vfNewEndOn: the same over a given connection (e.g. one end of a pipe).
func vfNewEndOn(tcp *net.TCPConn, kind channelKind, pi int, mode ua.MessageSecurityMode, localNonce, remoteNonce []byte, ack *uacp.Acknowledge, chanID, tokenID, seq uint32) *vfEnd {
	tag := "end"
	e := &vfEnd{errs: make(chan error, 8)}
	e.tcp = tcp
	conn, err := uacp.NewConn(e.tcp, ack)
	vfAssert(err == nil, "uacp.NewConn fails")
	cfg := &Config{SecurityPolicyURI: vfPolicyURI(pi), SecurityMode: mode}
	if pi >= 0 {
		cfg.LocalKey = vfRSAKey(tag+".key", 256)
	}
	e.sc, err = newSecureChannel("opc.tcp://h:4840", conn, cfg, kind, e.errs, 0, 0, 0)
	vfAssert(err == nil && e.sc != nil, "newSecureChannel rejects a valid configuration")
	algo, err := uapolicy.Symmetric(cfg.SecurityPolicyURI, localNonce, remoteNonce)
	vfAssert(err == nil && algo != nil, "uapolicy.Symmetric fails for a supported policy")
	in := newChannelInstance(e.sc)
	in.state = channelActive
	in.secureChannelID = chanID
	in.securityTokenID = tokenID
	in.sequenceNumber = seq
	in.algo = algo
	in.SetMaximumBodySize(int(conn.SendBufSize()))
	e.sc.instances[chanID] = append(e.sc.instances[chanID], in)
	e.sc.activeInstance = in
	e.inst = in
	return e
}
