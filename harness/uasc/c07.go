package uasc

import (
	"context"
	"encoding/binary"
	"time"

	"github.com/gopcua/opcua/ua"
	"github.com/gopcua/opcua/uacp"
	"github.com/gopcua/opcua/uapolicy"
)

// C07 — secure channel chunking round-trips every message under every policy and mode.

// vfMaxSeq: nextSequenceNumber restarts at 1 once the counter exceeds MaxUint32-1023, and
// channels start with a number in [1, 1023]; larger counter values are unreachable.
const vfMaxSeq = 4294967295 - 1023

func vfC07Resp(nonce []byte) *ua.ActivateSessionResponse {
	return &ua.ActivateSessionResponse{
		ResponseHeader: &ua.ResponseHeader{
			RequestHandle:      7,
			ServiceDiagnostics: &ua.DiagnosticInfo{},
			AdditionalHeader:   ua.NewExtensionObject(nil),
		},
		ServerNonce: nonce,
	}
}

func vfPolicyMode() (int, ua.MessageSecurityMode) {
	pm := vfParam("pm", -1)
	if pm < 0 {
		pm = vfConcrete(vfInt("policyMode", 0, 2*len(vfSymPolicies)))
	}
	if pm == 2*len(vfSymPolicies) {
		return -1, ua.MessageSecurityModeNone
	}
	return pm / 2, ua.MessageSecurityMode(2 + pm%2)
}

func vfNonces(pi int) ([]byte, []byte) {
	if pi < 0 {
		return nil, nil
	}
	return vfBytes("clientNonce", vfSymNonceLen[pi]), vfBytes("serverNonce", vfSymNonceLen[pi])
}

// Sizes: every chunk size, every body length that needs at most c07.chunks chunks.
// The real send path (SendMsgWithContext -> newMessage -> writeMessageChunks ->
// EncodeChunks -> signAndEncrypt -> Write) runs with a body of symbolic length.
func VerifH_C07_Sizes() {
	vfOpaqueAlloc(true)
	pi, mode := vfPolicyMode()
	cs := vfInt("chunkSize", 8192, 1<<31-1)
	// the nonces do not influence any length: fixed here, symbolic in the round-trip harness
	var cn, sn []byte
	if pi >= 0 {
		cn, sn = make([]byte, vfSymNonceLen[pi]), make([]byte, vfSymNonceLen[pi])
		sn[0] = 1
	}
	ack := &uacp.Acknowledge{ReceiveBufSize: uint32(cs), SendBufSize: uint32(cs)}
	seq := vfU32("seq")
	vfAssume(seq <= vfMaxSeq)
	snd := vfNewEnd("snd", server, pi, mode, sn, cn, ack, nil, 5, 9, seq)
	mbs := int(snd.inst.maxBodySize)
	vfAssert(mbs > 0 && mbs <= cs-24, "maximum body size out of range")

	maxChunks := vfParam("c07.chunks", 3)
	l := vfInt("nonceLen", 0, 1<<31-1)
	vfAssume(l < maxChunks*mbs-64)
	resp := vfC07Resp(vfOpaqueBytes("nonce", l))
	err := snd.sc.SendMsgWithContext(context.Background(), snd.inst, 77, resp)
	if err != nil {
		vfObserve("err", err.Error())
	}
	vfAssert(err == nil, "sending a message fails")
	if err != nil {
		return
	}
	plain, _ := ua.Encode(resp)
	bodyLen := 4 + len(plain) // four-byte type id + service
	n := vfTCPWrites(snd.tcp)
	vfAssert((n-1)*mbs <= bodyLen && bodyLen < n*mbs, "unexpected number of chunks")
	sigLen := 0
	if pi >= 0 {
		sigLen = snd.inst.algo.SignatureLength()
	}
	sum := 0
	for i := 0; i < n; i++ {
		f := vfTCPFrame(snd.tcp, i)
		vfAssert(len(f) <= cs, "a chunk exceeds the negotiated chunk size")
		if vfHeadLen(f) >= 12 {
			vfAssert(f[0] == 'M' && f[1] == 'S' && f[2] == 'G', "chunk is not of type MSG")
			if i < n-1 {
				vfAssert(f[3] == 'C', "a non-final chunk is not marked intermediate")
			} else {
				vfAssert(f[3] == 'F', "the last chunk is not marked final")
			}
			vfAssert(int(binary.LittleEndian.Uint32(f[4:8])) == len(f), "MessageSize differs from the chunk length")
			vfAssert(binary.LittleEndian.Uint32(f[8:12]) == 5, "wrong secure channel id")
			vfReach("header")
		}
		if mode != ua.MessageSecurityModeSignAndEncrypt {
			sum += len(f) - 24 - sigLen
		} else {
			vfAssert((len(f)-16)%16 == 0, "encrypted region is not a whole number of cipher blocks")
		}
	}
	if mode != ua.MessageSecurityModeSignAndEncrypt {
		vfAssert(sum == bodyLen, "chunk bodies do not add up to the encoded message")
	}
	if n >= 2 {
		vfReach("multi")
	}
	vfReach("sent")
}

// RoundTrip: the bytes the sender puts on the wire are fed to the peer's real receive path
// (uacp.Conn.Receive -> readChunk -> verifyAndDecrypt -> mergeChunks -> DecodeService);
// the decoded message must equal the original. Chunk size concrete (c07.cs), body bytes and
// nonces symbolic, body lengths around the chunk boundaries.
func VerifH_C07_RoundTrip() {
	pi, mode := vfPolicyMode()
	cs := vfParam("c07.cs", 8192)
	cn, sn := vfNonces(pi)
	ack := &uacp.Acknowledge{ReceiveBufSize: uint32(cs), SendBufSize: uint32(cs), MaxChunkCount: 16, MaxMessageSize: 1 << 24}
	seq := vfU32("seq")
	vfAssume(seq <= vfMaxSeq) // invariant of the counter: it restarts at 1 beyond this value
	snd := vfNewEnd("snd", server, pi, mode, sn, cn, ack, nil, 5, 9, seq)
	mbs := int(snd.inst.maxBodySize)
	empty, _ := ua.Encode(vfC07Resp([]byte{}))
	base := 4 + len(empty)
	targets := []int{base, mbs, mbs + 1, mbs - 1, base + 1, 2*mbs + 3}
	nt := vfParam("c07.targets", len(targets))
	k := vfConcrete(vfInt("target", 0, nt-1))
	nonce := vfBytes("nonce", targets[k]-base)
	resp := vfC07Resp(nonce)
	err := snd.sc.SendMsgWithContext(context.Background(), snd.inst, 77, resp)
	vfAssert(err == nil, "sending a message fails")
	if err != nil {
		return
	}
	wire := vfTCPWritten(snd.tcp)
	rcv := vfNewEnd("rcv", client, pi, mode, cn, sn, ack, wire, 5, 9, 0)
	msg := rcv.sc.Receive(context.Background())
	vfAssert(msg != nil && msg.Err == nil, "the peer rejects the chunks the sender produced")
	if msg == nil || msg.Err != nil {
		return
	}
	vfAssert(msg.RequestID == 77 && msg.SecureChannelID == 5, "request id or channel id changed in transit")
	got, ok := msg.Response().(*ua.ActivateSessionResponse)
	vfAssert(ok && got != nil, "the peer decoded a different service type")
	if !ok || got == nil {
		return
	}
	vfAssert(got.ResponseHeader != nil && got.ResponseHeader.RequestHandle == 7, "response header changed in transit")
	vfAssert(string(got.ServerNonce) == string(nonce), "message body changed in transit")
	if vfTCPWrites(snd.tcp) >= 2 {
		vfReach("multi")
	}
	vfReach("delivered")
}

// OPN: an OpenSecureChannel request (asymmetric chunk) produced by a client with key size a
// for a server with key size b is read by the server's real readChunk; the recovered body
// must be the encoded request. Key sizes are chosen independently from the policy's range,
// so sender and receiver may be in different ExtraPaddingSize classes (<= / > 2048 bits).
func VerifH_C07_OPN() {
	pi := vfConcrete(vfInt("policy", 0, len(vfSymPolicies)-1))
	uri := vfSymPolicies[pi]
	sizes := [][]int{{128, 256}, {128, 256}, {256, 384, 512}, {256, 384, 512}, {256, 384, 512}}[pi]
	ka := sizes[vfConcrete(vfInt("clientKey", 0, len(sizes)-1))]
	kb := sizes[vfConcrete(vfInt("serverKey", 0, len(sizes)-1))]
	keyA, keyB := vfRSAKey("client", ka), vfRSAKey("server", kb)
	certA, certB := vfCert("client", keyA), vfCert("server", keyB)
	ack := &uacp.Acknowledge{ReceiveBufSize: 8192, SendBufSize: 8192, MaxChunkCount: 16, MaxMessageSize: 1 << 20}

	// client side
	ctcp := vfTCP("cli", nil)
	cconn, _ := uacp.NewConn(ctcp, ack)
	ccfg := &Config{SecurityPolicyURI: uri, SecurityMode: ua.MessageSecurityModeSignAndEncrypt, Certificate: certA, LocalKey: keyA,
		RemoteCertificate: certB, Thumbprint: uapolicy.Thumbprint(certB), RequestTimeout: time.Second}
	cerr := make(chan error, 4)
	csc, err := NewSecureChannel("opc.tcp://h:4840", cconn, ccfg, cerr)
	vfAssert(err == nil, "NewSecureChannel rejects a valid configuration")
	algo, err := uapolicy.Asymmetric(uri, keyA, &keyB.PublicKey)
	vfAssert(err == nil && algo != nil, "Asymmetric fails for keys inside the policy range")
	if algo == nil {
		return
	}
	ci := newChannelInstance(csc)
	ci.algo = algo
	ci.SetMaximumBodySize(int(cconn.SendBufSize()))
	nonce := vfBytes("clientNonce", algo.NonceLength())
	req := &ua.OpenSecureChannelRequest{RequestType: ua.SecurityTokenRequestTypeIssue, SecurityMode: ua.MessageSecurityModeSignAndEncrypt, ClientNonce: nonce, RequestedLifetime: vfU32("lifetime")}
	_, err = csc.sendAsyncWithTimeout(context.Background(), req, 1, ci, nil, false, time.Second)
	vfAssert(err == nil, "sending the OpenSecureChannel request fails")
	if err != nil {
		return
	}
	wire := vfTCPWritten(ctcp)
	vfAssert(vfTCPWrites(ctcp) == 1 && len(wire) <= 8192, "OPN request is not a single chunk within the chunk size")
	vfAssert(int(binary.LittleEndian.Uint32(wire[4:8])) == len(wire), "MessageSize differs from the chunk length")

	// server side: as channelBroker.RegisterConn builds it
	stcp := vfTCP("srv", wire)
	sconn, _ := uacp.NewConn(stcp, ack)
	scfg := &Config{SecurityPolicyURI: ua.SecurityPolicyURINone, SecurityMode: ua.MessageSecurityModeNone, Certificate: certB, LocalKey: keyB, Lifetime: 3600000}
	serr := make(chan error, 4)
	ssc, err := NewServerSecureChannel("", sconn, scfg, serr, 7, 3, 9)
	vfAssert(err == nil && ssc != nil, "NewServerSecureChannel fails")
	chunk, err := ssc.readChunk()
	vfAssert(err == nil && chunk != nil, "the server rejects a well-formed OpenSecureChannel chunk")
	if err != nil || chunk == nil {
		return
	}
	want, _ := ua.Encode(req)
	typeID, _ := ua.Encode(ua.NewFourByteExpandedNodeID(0, 446)) // OpenSecureChannelRequest_Encoding_DefaultBinary
	vfAssert(string(chunk.Data) == string(typeID)+string(want), "the decrypted OPN body differs from the encoded request")
	vfAssert(chunk.SequenceHeader != nil && chunk.SequenceHeader.RequestID == 1, "request id changed in transit")
	vfReach("opn")
}
