package uasc

import (
	"context"
	"time"

	"github.com/gopcua/opcua/ua"
	"github.com/gopcua/opcua/uacp"
	"github.com/gopcua/opcua/uapolicy"
)

// C30 (uasc part) — a server-side channel refuses an OpenSecureChannel request whose security
// mode does not fit the policy it was secured with (e.g. an encrypted request that asks for
// mode None, or any mode value outside {None, Sign, SignAndEncrypt}), and consults the
// AcceptSecurity hook of its configuration for the pairs that fit.
//
// The client side is hand-driven (the real send path with a hand-built opening instance), so
// that the mode in the request body is independent of how the request itself is secured.
func VerifH_C30_ModeFitsPolicy() {
	vfCryptoInjective(true)
	uris := []string{ua.SecurityPolicyURINone, ua.SecurityPolicyURIBasic256Sha256, ua.SecurityPolicyURIBasic128Rsa15}
	np := vfParam("c30.policies", 3)
	if np > len(uris) {
		np = len(uris)
	}
	uri := uris[vfConcrete(vfInt("policy", 0, np-1))]
	mode := ua.MessageSecurityMode(vfU32("mode"))
	hook := vfConcrete(vfInt("hook", 0, 2)) // no hook / accepts / refuses

	a, b := vfTCPPair("c30")
	ack := &uacp.Acknowledge{ReceiveBufSize: 65535, SendBufSize: 65535, MaxChunkCount: 64, MaxMessageSize: 1 << 22}
	cconn, _ := uacp.NewConn(a, ack)
	sconn, _ := uacp.NewConn(b, ack)

	skey := vfRSAKey("server", 256)
	scfg := &Config{SecurityPolicyURI: ua.SecurityPolicyURINone, SecurityMode: ua.MessageSecurityModeNone, Certificate: vfCert("server", skey), LocalKey: skey, Lifetime: 3600000}
	asked := 0
	switch hook {
	case 1:
		scfg.AcceptSecurity = func(p string, m ua.MessageSecurityMode) bool {
			asked++
			vfAssert(p == uri && m == mode, "AcceptSecurity is asked about another pair than the requested one")
			return true
		}
	case 2:
		scfg.AcceptSecurity = func(p string, m ua.MessageSecurityMode) bool { asked++; return false }
	}
	errs := make(chan error, 4)
	ssc, err := NewServerSecureChannel("", sconn, scfg, errs, 7, 3, 9)
	vfAssert(err == nil && ssc != nil, "NewServerSecureChannel fails")

	ccfg := &Config{SecurityPolicyURI: uri, SecurityMode: ua.MessageSecurityModeNone, Lifetime: 60000, RequestTimeout: time.Second}
	var ckey *vfRSAPriv
	if uri != ua.SecurityPolicyURINone {
		ckey = vfRSAKey("client", 256)
		ccfg.SecurityMode = ua.MessageSecurityModeSignAndEncrypt
		ccfg.LocalKey, ccfg.Certificate, ccfg.RemoteCertificate = ckey, vfCert("client", ckey), scfg.Certificate
		ccfg.Thumbprint = uapolicy.Thumbprint(scfg.Certificate)
	}
	cerrs := make(chan error, 4)
	csc, err := NewSecureChannel("opc.tcp://h:4840", cconn, ccfg, cerrs)
	vfAssert(err == nil && csc != nil, "NewSecureChannel fails")
	var algo *uapolicy.EncryptionAlgorithm
	if ckey != nil {
		algo, err = uapolicy.Asymmetric(uri, ckey, &skey.PublicKey)
	} else {
		algo, err = uapolicy.Asymmetric(uri, nil, nil)
	}
	vfAssert(err == nil && algo != nil, "uapolicy.Asymmetric fails")
	inst := newChannelInstance(csc)
	inst.algo = algo
	inst.SetMaximumBodySize(int(cconn.SendBufSize()))
	csc.openingInstance = inst
	nonce, _ := algo.MakeNonce()
	// the request type (Issue, Renew, or any other value) must not matter for the decision
	req := &ua.OpenSecureChannelRequest{RequestType: ua.SecurityTokenRequestType(vfU32("requestType")), SecurityMode: mode, ClientNonce: nonce, RequestedLifetime: 60000}
	_, err = csc.sendAsyncWithTimeout(context.Background(), req, 1, inst, nil, false, time.Second)
	vfAssert(err == nil, "sending the OpenSecureChannel request fails")

	msg := ssc.Receive(context.Background())
	vfAssert(msg != nil, "Receive returns nil")
	fits := (uri == ua.SecurityPolicyURINone && mode == ua.MessageSecurityModeNone) ||
		(uri != ua.SecurityPolicyURINone && (mode == ua.MessageSecurityModeSign || mode == ua.MessageSecurityModeSignAndEncrypt))
	answered := vfTCPWrites(b) > 0
	if fits && hook != 2 {
		vfAssert(msg.Err == nil && answered, "an OpenSecureChannel request with a fitting and accepted policy/mode pair is refused")
		vfAssert(hook == 0 || asked == 1, "AcceptSecurity was not consulted exactly once")
		vfReach("opened")
		return
	}
	vfAssert(msg.Err != nil && !answered, "a secure channel is opened although the mode does not fit the policy or the pair was not accepted")
	vfReach("refused")
}
