package uasc

import (
	"time"

	"github.com/gopcua/opcua/ua"
	"github.com/gopcua/opcua/uacp"
)

// C16 — token renewal timing (kernel): renewal no earlier than half of the token lifetime
// and before it ends; the old token is kept at least until its lifetime ends and dropped
// no later than 25% after it.

func vfC16Channel(kind channelKind) *vfEnd {
	ack := &uacp.Acknowledge{ReceiveBufSize: 8192, SendBufSize: 8192, MaxChunkCount: 16, MaxMessageSize: 1 << 20}
	return vfNewEnd("c16", kind, -1, ua.MessageSecurityModeNone, nil, nil, ack, nil, 5, 9, 1)
}

// vfC16Open runs the real handleOpenSecureChannelResponse for a token of revised lifetime l (ms)
// on a client configured with cfgL (ms); returns the instance and the effective lifetime in ns.
func vfC16Open(e *vfEnd, l, cfgL uint32, createdAt time.Time) (*channelInstance, int64) {
	e.sc.cfg.Lifetime = cfgL
	inst := newChannelInstance(e.sc)
	e.sc.openingInstance = inst
	resp := &ua.OpenSecureChannelResponse{
		ResponseHeader: &ua.ResponseHeader{},
		SecurityToken:  &ua.ChannelSecurityToken{ChannelID: 5, TokenID: 10, CreatedAt: createdAt, RevisedLifetime: l},
	}
	close(e.sc.closing) // the scheduling goroutines compute their timers and then see the channel closing
	err := e.sc.handleOpenSecureChannelResponse(resp, nil, inst)
	vfAssert(err == nil, "handleOpenSecureChannelResponse fails")
	eff := int64(l)
	if int64(cfgL) < eff {
		eff = int64(cfgL) // the client may ask for a shorter lifetime
	}
	vfAssert(int64(inst.revisedLifetime) == eff*int64(time.Millisecond), "effective lifetime is not min(revised, requested)")
	return inst, eff * int64(time.Millisecond)
}

func VerifH_C16_RenewalDelay() {
	e := vfC16Channel(client)
	l, cfgL := vfU32("revisedLifetimeMs"), vfU32("cfgLifetimeMs")
	vfAssume(l >= uint32(vfParam("c16.minms", 1)) && cfgL >= uint32(vfParam("c16.minms", 1)))
	inst, eff := vfC16Open(e, l, cfgL, time.Now())
	if !vfSymbolic() {
		vfC16NativeRenewal(e, inst, eff)
		return
	}
	vfGhostSet("timer.last.d", -1)
	e.sc.scheduleRenewal(inst)
	when := int64(vfGhostGet("timer.last.d"))
	vfAssert(when >= 0, "scheduleRenewal sets no timer")
	vfAssert(2*when >= eff, "token renewal is scheduled before half of the token lifetime")
	vfAssert(when < eff, "token renewal is scheduled at or after the end of the token lifetime")
	vfReach("scheduled")
}

// Native replay cannot read a timer's duration; it observes the renewal itself instead:
// the renewal request is the first thing written to the connection.
func vfC16NativeRenewal(e *vfEnd, inst *channelInstance, eff int64) {
	if eff > int64(8*time.Second) {
		vfAssume(false) // too long to observe in a replay
	}
	e.sc.closing = make(chan struct{})
	e.sc.openingInstance = nil
	go e.sc.scheduleRenewal(inst)
	half := time.Duration(eff / 2)
	if half > 40*time.Millisecond {
		time.Sleep(half - 40*time.Millisecond)
		vfAssert(len(vfTCPWritten(e.tcp)) == 0, "token renewal is scheduled before half of the token lifetime")
	}
	time.Sleep(time.Duration(eff) - half + 150*time.Millisecond)
	vfAssert(len(vfTCPWritten(e.tcp)) > 0, "token renewal is scheduled at or after the end of the token lifetime")
}

func VerifH_C16_ExpiryDelay() {
	e := vfC16Channel(client)
	l, cfgL := vfU32("revisedLifetimeMs"), vfU32("cfgLifetimeMs")
	vfAssume(l >= uint32(vfParam("c16.minms", 1)) && cfgL >= uint32(vfParam("c16.minms", 1)))
	created := time.Now()
	inst, eff := vfC16Open(e, l, cfgL, created)
	if !vfSymbolic() {
		vfC16NativeExpiry(e, inst, eff)
		return
	}
	vfGhostSet("timer.last.d", -1)
	e.sc.scheduleExpiration(inst)
	d := int64(vfGhostGet("timer.last.d"))
	now := int64(vfGhostGet("clock.last"))
	// the timer was armed at instant now for d: the token is dropped at now+d
	dropAt := now + d - created.UnixNano()
	vfAssert(dropAt >= eff, "a token is dropped before its lifetime has ended")
	vfAssert(dropAt <= eff+eff/4+int64(time.Millisecond), "a token is kept for more than 25% beyond its lifetime")
	vfReach("scheduled")
}

// Native replay observes the removal of the instance from the channel's instance list.
func vfC16NativeExpiry(e *vfEnd, inst *channelInstance, eff int64) {
	if eff > int64(8*time.Second) {
		vfAssume(false)
	}
	present := func() bool {
		e.sc.instancesMu.Lock()
		defer e.sc.instancesMu.Unlock()
		for _, i := range e.sc.instances[inst.secureChannelID] {
			if i == inst {
				return true
			}
		}
		return false
	}
	e.sc.closing = make(chan struct{})
	inst.createdAt = time.Now()
	go e.sc.scheduleExpiration(inst)
	if time.Duration(eff) > 60*time.Millisecond {
		time.Sleep(time.Duration(eff) - 60*time.Millisecond)
		vfAssert(present(), "a token is dropped before its lifetime has ended")
	}
	time.Sleep(time.Duration(eff/4) + 250*time.Millisecond)
	vfAssert(!present(), "a token is kept for more than 25% beyond its lifetime")
}

// C16 (requests around a renewal): while a renewal is in flight new requests are parked on the
// channel's request locker; when the renewal finishes, every parked request goes on — not just
// one of them. n callers wait, then the locker is released once.
func VerifH_C16_LockerReleasesAll() {
	l := newConditionLocker()
	l.lock()
	n := vfConcrete(vfInt("waiters", 1, 3))
	done := make(chan int, n)
	ready := make(chan int, n)
	for i := 0; i < n; i++ {
		go func(i int) {
			ready <- i
			l.waitIfLock()
			done <- i
		}(i)
	}
	for i := 0; i < n; i++ {
		<-ready // the callers get to the locker before the renewal finishes
	}
	late := vfBool("lateCaller")
	l.unlock()
	if late {
		l.waitIfLock() // a request that arrives after the renewal is not held at all
	}
	for i := 0; i < n; i++ {
		<-done // a caller that stays parked for ever shows up as a deadlock
	}
	vfReach("released")
}
