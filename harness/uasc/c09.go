package uasc

import (
	"context"
	"encoding/binary"

	"github.com/gopcua/opcua/ua"
	"github.com/gopcua/opcua/uacp"
)

// C09 — tampered, truncated, extended or forged secured chunks are rejected (and never panic).

var vfC09Ack = &uacp.Acknowledge{ReceiveBufSize: 8192, SendBufSize: 8192, MaxChunkCount: 16, MaxMessageSize: 1 << 20}

// vfLegitChunk: one single-chunk message produced by the real send path of the peer.
func vfLegitChunk(pi int, mode ua.MessageSecurityMode, cn, sn []byte) []byte {
	snd := vfNewEnd("snd", server, pi, mode, sn, cn, vfC09Ack, nil, 5, 9, 10)
	err := snd.sc.SendMsgWithContext(context.Background(), snd.inst, 77, vfC07Resp([]byte{1, 2, 3}))
	vfAssert(err == nil, "sending fails")
	return vfTCPWritten(snd.tcp)
}

func vfC09Nonces(pi int) ([]byte, []byte) {
	cn, sn := make([]byte, vfSymNonceLen[pi]), make([]byte, vfSymNonceLen[pi])
	cn[0], sn[0] = 1, 2
	return cn, sn
}

func vfC09Setup() (int, ua.MessageSecurityMode, []byte, []byte) {
	vfCryptoInjective(true)
	pis := []int{2, 0} // Basic256Sha256 (32-byte signatures), Basic128Rsa15 (20-byte signatures)
	pi := pis[vfConcrete(vfInt("policy", 0, vfParam("c09.policies", 2)-1))]
	mode := ua.MessageSecurityMode(vfConcrete(vfInt("mode", 2, 3)))
	cn, sn := vfC09Nonces(pi)
	return pi, mode, cn, sn
}

func vfC09Deliver(pi int, mode ua.MessageSecurityMode, cn, sn, stream []byte) *MessageBody {
	rcv := vfNewEnd("rcv", client, pi, mode, cn, sn, vfC09Ack, stream, 5, 9, 0)
	return rcv.sc.Receive(context.Background())
}

// any modification of any single byte
func VerifH_C09_Tamper() {
	pi, mode, cn, sn := vfC09Setup()
	wire := vfLegitChunk(pi, mode, cn, sn)
	ok := vfC09Deliver(pi, mode, cn, sn, wire)
	vfAssert(ok != nil && ok.Err == nil, "the unmodified chunk is rejected")
	i := vfConcrete(vfInt("pos", 0, len(wire)-1))
	d := vfU8("delta")
	vfAssume(d != 0)
	bad := append([]byte{}, wire...)
	bad[i] ^= d
	msg := vfC09Deliver(pi, mode, cn, sn, bad)
	vfAssert(msg == nil || msg.Err != nil, "a chunk with a modified byte is delivered")
	vfReach("tampered")
}

// truncation to every length and extension by up to 3 blocks, with the size field adjusted by the adversary
func VerifH_C09_Resize() {
	pi, mode, cn, sn := vfC09Setup()
	wire := vfLegitChunk(pi, mode, cn, sn)
	n := vfConcrete(vfInt("newLen", 12, len(wire)+48))
	vfAssume(n != len(wire))
	bad := make([]byte, n)
	copy(bad, wire)
	if n > len(wire) {
		copy(bad[len(wire):], vfBytes("extra", n-len(wire)))
	}
	binary.LittleEndian.PutUint32(bad[4:], uint32(n))
	msg := vfC09Deliver(pi, mode, cn, sn, bad)
	vfAssert(msg == nil || msg.Err != nil, "a truncated or extended chunk is delivered")
	vfReach("resized")
}

// a chunk produced with other keys (an adversary without the channel's keys)
func VerifH_C09_WrongKeys() {
	vfCryptoInjective(true)
	// a policy whose derived signing key contains a whole HMAC block, so that collision
	// resistance implies different nonces give different keys (see C14)
	pi := 2
	mode := ua.MessageSecurityMode(vfConcrete(vfInt("mode", 2, 3)))
	cn, sn := vfC09Nonces(pi)
	on, os := vfC09Nonces(pi)
	on[1], os[1] = 7, 8
	wire := vfLegitChunk(pi, mode, on, os)
	msg := vfC09Deliver(pi, mode, cn, sn, wire)
	vfAssert(msg == nil || msg.Err != nil, "a chunk secured with other keys is delivered")
	vfReach("forged")
}

// C13 — arbitrary bytes after a plausible header: the receive path must not panic.
func VerifH_C13_Garbage() {
	vfCryptoInjective(true)
	pm := vfConcrete(vfInt("policyMode", 0, 2))
	pi, mode := -1, ua.MessageSecurityModeNone
	var cn, sn []byte
	if pm > 0 {
		pi, mode = 2, ua.MessageSecurityMode(1+pm)
		cn, sn = vfC09Nonces(pi)
	}
	kind := channelKind(vfConcrete(vfInt("kind", 0, 1)))
	maxLen := vfParam("c13.len", 40)
	if pm == 0 {
		maxLen = vfParam("c13.lenNone", 10) // unsecured: the body goes straight to the decoder (C02 covers that)
	}
	typ := vfConcrete(vfInt("type", 0, 2))
	if typ == 1 && maxLen > vfParam("c13.lenOPN", 14) {
		maxLen = vfParam("c13.lenOPN", 14) // three length-prefixed fields: every split of the payload is a path
	}
	n := vfConcrete(vfInt("len", 0, maxLen))
	frame := make([]byte, 12+n)
	copy(frame, []string{"MSG", "OPN", "CLO"}[typ])
	frame[3] = vfU8("chunkType")
	binary.LittleEndian.PutUint32(frame[4:], uint32(12+n))
	binary.LittleEndian.PutUint32(frame[8:], vfU32("channelID"))
	copy(frame[12:], vfBytes("payload", n))
	rcv := vfNewEnd("rcv", kind, pi, mode, cn, sn, vfC09Ack, frame, 5, 9, 0)
	if vfBool("opening") {
		rcv.sc.openingInstance = newChannelInstance(rcv.sc)
	}
	msg := rcv.sc.Receive(context.Background())
	vfAssert(msg != nil, "Receive returns nil")
	vfReach("survived")
}

// a forged, unsecured OpenSecureChannel chunk naming policy #None, followed by an unsigned
// MSG chunk, on an established secured server channel (which keeps an opening instance):
// neither may be delivered, and the OPN header of an unauthenticated chunk must not switch
// the channel to "no security".
func VerifH_C09_ForgedOPN() {
	pi, mode, cn, sn := vfC09Setup()
	sec, _ := NewAsymmetricSecurityHeader(ua.SecurityPolicyURINone, nil, nil).Encode()
	n := vfConcrete(vfInt("payloadLen", 0, vfParam("c09.opnlen", 24)))
	opn := make([]byte, 12)
	copy(opn, "OPNF")
	opn = append(append(opn, sec...), vfBytes("payload", n)...)
	binary.LittleEndian.PutUint32(opn[4:], uint32(len(opn)))
	binary.LittleEndian.PutUint32(opn[8:], 5)
	resp := vfC07Resp([]byte{1, 2, 3})
	plain, _ := ua.Encode(resp)
	typeID, _ := ua.Encode(ua.NewFourByteExpandedNodeID(0, 470))
	msgChunk := vfChunk('F', 5, 9, 11, 78, append(typeID, plain...)) // no signature, not encrypted
	stream := append(append([]byte{}, opn...), msgChunk...)
	rcv := vfNewEnd("rcv", server, pi, mode, sn, cn, vfC09Ack, stream, 5, 9, 0)
	rcv.sc.openingInstance = rcv.inst // as NewServerSecureChannel / handleOpenSecureChannelRequest leave it
	m1 := rcv.sc.Receive(context.Background())
	vfAssert(m1 == nil || m1.Err != nil || m1.body == nil, "a forged unsecured OpenSecureChannel chunk is accepted on a secured channel")
	m2 := rcv.sc.Receive(context.Background())
	vfAssert(m2 == nil || m2.Err != nil, "an unsigned chunk is delivered on a secured channel after a forged OPN chunk")
	vfReach("forgedopn")
}
