package monitor

import (
	"context"
	"time"

	"github.com/gopcua/opcua"
	"github.com/gopcua/opcua/ua"
)

// C28 (monitor kernel) — every data change delivered through the node monitor names the node
// that was registered for its client handle.
//
// The real NodeMonitor / Subscription (ChanSubscribe, AddNodeIDs, RemoveNodeIDs, pump) runs on a
// real client (publish loop, channel) against a scripted server. The server keeps its own view
// of which client handle belongs to which node (from the CreateMonitoredItems requests it
// accepted and the DeleteMonitoredItems requests it saw) and then reports a value for a handle
// chosen by the explorer: a registered one, a removed one, one whose creation it refused, or
// one it never saw.
func VerifH_C28_HandleToNode() {
	vfFixedClock(true)
	vfPreempt(false) // schedules are explored on the server side kernel; here the default schedule
	vfTimeHorizon(10 * 60 * 1000)
	type item struct {
		handle uint32
		node   string
		live   bool
	}
	var items []*item          // every item of every CreateMonitoredItems request, in order
	byID := map[uint32]*item{} // server's monitored item id -> item
	nextItem := uint32(40)
	refuse := vfConcrete(vfInt("refuse", -1, 2)) // index of the create request item the server refuses (-1: none)
	var armed *ua.PublishResponse
	c := opcua.VfClient(func(req ua.Request) ua.Response {
		switch r := req.(type) {
		case *ua.CreateSubscriptionRequest:
			return &ua.CreateSubscriptionResponse{ResponseHeader: opcua.VfResponseHeader(), SubscriptionID: 5, RevisedPublishingInterval: 100, RevisedLifetimeCount: 10, RevisedMaxKeepAliveCount: 3}
		case *ua.CreateMonitoredItemsRequest:
			res := &ua.CreateMonitoredItemsResponse{ResponseHeader: opcua.VfResponseHeader()}
			for _, it := range r.ItemsToCreate {
				x := &item{handle: it.RequestedParameters.ClientHandle, node: it.ItemToMonitor.NodeID.String()}
				st := ua.StatusOK
				if len(items) == refuse {
					st = ua.StatusBadNodeIDUnknown
				} else {
					x.live = true
				}
				items = append(items, x)
				nextItem++
				byID[nextItem] = x
				res.Results = append(res.Results, &ua.MonitoredItemCreateResult{StatusCode: st, MonitoredItemID: nextItem, RevisedSamplingInterval: 100, RevisedQueueSize: 1, FilterResult: ua.NewExtensionObject(nil)})
			}
			return res
		case *ua.DeleteMonitoredItemsRequest:
			res := &ua.DeleteMonitoredItemsResponse{ResponseHeader: opcua.VfResponseHeader()}
			for _, id := range r.MonitoredItemIDs {
				if x := byID[id]; x != nil && x.live {
					x.live = false
					res.Results = append(res.Results, ua.StatusOK)
				} else {
					res.Results = append(res.Results, ua.StatusBadMonitoredItemIDInvalid)
				}
			}
			return res
		case *ua.PublishRequest:
			if armed != nil {
				p := armed
				armed = nil
				return p
			}
			return nil // outstanding until the client's publish timeout
		}
		return &ua.ServiceFault{ResponseHeader: opcua.VfResponseHeader()}
	})
	ctx, cancel := context.WithCancel(context.Background())
	defer cancel()
	opcua.VfStartPublishLoop(ctx, c)

	nm, err := NewNodeMonitor(c)
	vfAssert(err == nil, "NewNodeMonitor fails")
	ch := make(chan *DataChangeMessage, 4)
	sub, err := nm.ChanSubscribe(ctx, &opcua.SubscriptionParameters{}, ch, "ns=1;i=1000", "ns=1;i=1001")
	if refuse >= 0 && refuse <= 1 {
		// the initial AddNodes reports the refused item; the monitor keeps the subscription it created
		vfReach("refusedAtStart")
		return
	}
	vfAssert(err == nil && sub != nil, "ChanSubscribe fails")
	if sub == nil {
		return
	}
	// a third node is added later, one of the first two may be removed
	err = sub.AddNodeIDs(ctx, ua.NewNumericNodeID(1, 1002))
	vfAssert((err != nil) == (refuse == 2), "AddNodeIDs reports the wrong outcome")
	if rm := vfConcrete(vfInt("remove", -1, 1)); rm >= 0 {
		err = sub.RemoveNodeIDs(ctx, ua.NewNumericNodeID(1, uint32(1000+rm)))
		vfAssert(err == nil, "RemoveNodeIDs fails")
	}
	vfAssert(len(items) == 3, "the server did not see three create requests")

	// the server reports a value for a handle of its choice
	pick := vfConcrete(vfInt("notify", 0, 3))
	h := uint32(7) // never registered
	var want *item
	if pick < 3 {
		want = items[pick]
		h = want.handle
	}
	v := int32(vfU32("value"))
	armed = &ua.PublishResponse{ResponseHeader: opcua.VfResponseHeader(), SubscriptionID: 5, NotificationMessage: &ua.NotificationMessage{SequenceNumber: 1,
		NotificationData: []*ua.ExtensionObject{ua.NewExtensionObject(&ua.DataChangeNotification{MonitoredItems: []*ua.MonitoredItemNotification{{ClientHandle: h, Value: &ua.DataValue{EncodingMask: ua.DataValueValue, Value: ua.MustVariant(v)}}}})}}}
	// optionally the same notification carries, in front of it, an entry for a handle the
	// monitor does not know (e.g. an item removed a moment ago): both entries are delivered
	two := vfConcrete(vfInt("staleEntryFirst", 0, 1)) == 1
	if two {
		dcn := armed.NotificationMessage.NotificationData[0].Value.(*ua.DataChangeNotification)
		dcn.MonitoredItems = append([]*ua.MonitoredItemNotification{{ClientHandle: 5, Value: &ua.DataValue{EncodingMask: ua.DataValueValue, Value: ua.MustVariant(int32(1))}}}, dcn.MonitoredItems...)
	}
	recv := func() *DataChangeMessage {
		select {
		case m := <-ch:
			return m
		case <-time.After(5 * time.Second):
			vfAssert(false, "a reported data change is never delivered to the application")
			return nil
		}
	}
	msg := recv()
	if msg == nil {
		return
	}
	if two {
		vfAssert(msg.Error != nil || msg.NodeID == nil, "an entry for an unknown client handle is delivered as a node's value")
		vfSettle()
		vfAssert(len(ch) >= 1, "the entries that follow one for an unknown client handle in the same notification are not delivered")
		if len(ch) == 0 {
			return
		}
		msg = <-ch
		vfReach("afterStale")
	}
	if want != nil && want.live {
		vfAssert(msg.Error == nil && msg.NodeID != nil && msg.NodeID.String() == want.node, "a data change is delivered under another node id than the one registered for its client handle")
		got, ok := msg.Value.Value().(int32)
		vfAssert(ok && got == v, "a data change is delivered with another value than the one reported")
		vfReach("delivered")
	} else {
		vfAssert(msg.Error != nil || msg.NodeID == nil, "a data change for a client handle that is not registered (any more) is delivered as a node's value")
		vfReach("unknownHandle")
	}
}
