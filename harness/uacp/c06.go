package uacp

import "context"

// C06 — negotiated transport limits are honoured in both directions (Hello/Acknowledge part).
//
// The real client Handshake and the real server srvhandshake run against each other over a
// pipe; all eight configured limits are symbolic. "Advertised" values are what each side put
// on the wire: the client's Hello carries its configuration, the server's Acknowledge its own.

func vfLimits(tag string) *Acknowledge {
	a := &Acknowledge{ReceiveBufSize: vfU32(tag + ".recvBuf"), SendBufSize: vfU32(tag + ".sendBuf"), MaxMessageSize: vfU32(tag + ".maxMsg"), MaxChunkCount: vfU32(tag + ".maxChunks")}
	vfAssume(a.ReceiveBufSize >= 8192 && a.ReceiveBufSize <= 1<<20 && a.SendBufSize >= 8192 && a.SendBufSize <= 1<<20)
	return a
}

func VerifH_C06_Negotiation() {
	vfOpaqueAlloc(true)
	cli, srv := vfLimits("client"), vfLimits("server")
	cfgCli, cfgSrv := *cli, *srv // the configured values (the handshake may replace the structs)
	a, b := vfTCPPair("hs")
	cc, err := NewConn(a, cli)
	vfAssert(err == nil, "NewConn fails")
	sc := &Conn{TCPConn: b, id: nextid(), ack: srv}
	done := make(chan error, 1)
	go func() { done <- sc.srvhandshake("opc.tcp://h:4840/") }()
	err = cc.Handshake(context.Background(), "opc.tcp://h:4840/")
	serr := <-done
	vfAssert(err == nil && serr == nil, "the Hello/Acknowledge exchange fails for valid limits")
	if err != nil || serr != nil {
		return
	}
	// what each side will do from now on
	cSend, cRecv := cc.SendBufSize(), cc.ReceiveBufSize()
	sSend, sRecv := sc.SendBufSize(), sc.ReceiveBufSize()
	vfAssert(cSend <= cfgSrv.ReceiveBufSize, "O1: the client may send chunks larger than the receive buffer the server advertised")
	vfAssert(sSend <= cfgCli.ReceiveBufSize, "O2: the server may send chunks larger than the receive buffer the client advertised")
	vfAssert(cRecv >= sSend, "O3: the client rejects chunks of a size the server may send")
	vfAssert(sRecv >= cSend, "O4: the server rejects chunks of a size the client may send")
	vfAssert(cSend <= cfgCli.SendBufSize, "O1b: the client sends chunks larger than its own configured send buffer")
	vfAssert(sSend <= cfgSrv.SendBufSize, "O2b: the server sends chunks larger than its own configured send buffer")
	// message limits announced by the server apply to the client's requests (0 = no limit)
	if cfgSrv.MaxMessageSize != 0 {
		vfAssert(cc.MaxMessageSize() != 0 && cc.MaxMessageSize() <= cfgSrv.MaxMessageSize, "the client ignores the server's maximum message size")
	}
	if cfgSrv.MaxChunkCount != 0 {
		vfAssert(cc.MaxChunkCount() != 0 && cc.MaxChunkCount() <= cfgSrv.MaxChunkCount, "the client ignores the server's maximum chunk count")
	}
	vfReach("negotiated")
}

// Send refuses packets larger than the send buffer; Receive refuses frames larger than the receive buffer.
func VerifH_C06_ConnLimits() {
	lim := vfLimits("l")
	a, b := vfTCPPair("cl")
	x := &Conn{TCPConn: a, id: nextid(), ack: lim}
	n := vfConcrete(vfInt("urlLen", 0, 2))
	err := x.Send("HELF", &Hello{EndpointURL: vfString("url", n)})
	vfAssert(err == nil, "a small packet is refused")
	w := vfTCPWritten(a)
	vfAssert(len(w) <= int(lim.SendBufSize), "Send writes a packet larger than the send buffer")
	_ = b
	vfReach("sent")
}
