package uacp

import "encoding/binary"

// C05 — UACP framing delivers exactly the frames sent under any segmentation.
//
// The peer sends an arbitrary byte stream of length L (every byte symbolic, so every
// header — sizes 0..2^32-1, every type, ERR frames — is covered); the reference below
// cuts it into frames the way the specification says and Receive must agree.

func vfC05Run(byteWise bool) {
	bufs := []int{8, 12, 24}
	buf := bufs[vfConcrete(vfInt("buf", 0, len(bufs)-1))]
	l := vfConcrete(vfInt("len", 0, vfParam("c05.len", 20)))
	stream := vfBytes("stream", l)
	tcp := vfTCP("c05", stream)
	if byteWise {
		vfTCPByteWise(tcp)
	}
	c, err := NewConn(tcp, &Acknowledge{ReceiveBufSize: uint32(buf), SendBufSize: 8192})
	vfAssert(err == nil && c != nil, "NewConn fails")
	off := 0
	var prev []byte
	for i := 0; i < vfParam("c05.frames", 3); i++ {
		b, err := c.Receive()
		if prev != nil {
			vfFreeze(prev, "frame delivered earlier") // C20: a delivered frame must not change afterwards
		}
		if l-off < 8 {
			vfAssert(err != nil && b == nil, "a truncated header yields a frame")
			vfReach("eof")
			return
		}
		size := int(binary.LittleEndian.Uint32(stream[off+4 : off+8]))
		if size < 8 || size > buf {
			vfAssert(err != nil && b == nil, "a frame with an invalid declared size is delivered")
			vfReach("badsize")
			return
		}
		if l-off < size {
			vfAssert(err != nil && b == nil, "a truncated frame is delivered")
			vfReach("truncated")
			return
		}
		if stream[off] == 'E' && stream[off+1] == 'R' && stream[off+2] == 'R' {
			vfAssert(err != nil && b == nil, "an ERR frame is delivered as data")
			vfReach("errframe")
		} else {
			vfAssert(err == nil, "a well-formed frame is rejected")
			if err != nil {
				return
			}
			vfAssert(len(b) == size && string(b) == string(stream[off:off+size]), "delivered frame differs from the bytes sent")
			vfReach("delivered")
			prev = b
		}
		off += size
	}
	vfReach("three")
}

// every segmentation with at most SegCuts short reads (set by the tier), including none
func VerifH_C05_Frames() { vfC05Run(false) }

// one byte per read
func VerifH_C05_ByteWise() { vfC05Run(true) }
