package uacp

import "encoding/binary"

// C05 — UACP framing delivers exactly the frames sent under any segmentation.
//
// The peer sends an arbitrary byte stream of length L (every byte symbolic, so every
// header — sizes 0..2^32-1, every type, ERR frames — is covered); the reference below
// cuts it into frames the way the specification says and Receive must agree.

func vfC05Run(byteWise bool) {
	bufs := []int{8, 12, 24}
	buf := bufs[vfConcrete(vfInt("buf", 0, len(bufs)-1))]
	l := vfConcrete(vfInt("len", 0, vfParam("c05.len", 20)))
	stream := vfBytes("stream", l)
	tcp := vfTCP("c05", stream)
	if byteWise {
		vfTCPByteWise(tcp)
	}
	c, err := NewConn(tcp, &Acknowledge{ReceiveBufSize: uint32(buf), SendBufSize: 8192})
	vfAssert(err == nil && c != nil, "NewConn fails")
	off := 0
	var prev []byte
	for i := 0; i < vfParam("c05.frames", 3); i++ {
		b, err := c.Receive()
		if prev != nil {
			vfFreeze(prev, "frame delivered earlier") // C20: a delivered frame must not change afterwards
		}
		if l-off < 8 {
			vfAssert(err != nil && b == nil, "a truncated header yields a frame")
			vfReach("eof")
			return
		}
		size := int(binary.LittleEndian.Uint32(stream[off+4 : off+8]))
		if size < 8 || size > buf {
			vfAssert(err != nil && b == nil, "a frame with an invalid declared size is delivered")
			vfReach("badsize")
			return
		}
		if l-off < size {
			vfAssert(err != nil && b == nil, "a truncated frame is delivered")
			vfReach("truncated")
			return
		}
		if stream[off] == 'E' && stream[off+1] == 'R' && stream[off+2] == 'R' {
			vfAssert(err != nil && b == nil, "an ERR frame is delivered as data")
			vfReach("errframe")
		} else {
			vfAssert(err == nil, "a well-formed frame is rejected")
			if err != nil {
				return
			}
			vfAssert(len(b) == size && string(b) == string(stream[off:off+size]), "delivered frame differs from the bytes sent")
			vfReach("delivered")
			prev = b
		}
		off += size
	}
	vfReach("three")
}

// every segmentation with at most SegCuts short reads (set by the tier), including none
func VerifH_C05_Frames() { vfC05Run(false) }

// one byte per read
func VerifH_C05_ByteWise() { vfC05Run(true) }

// C20 at buffer-management boundaries: frames whose total size is a power of two or next to
// it (sizes at which an implementation might switch between copying, pooling and handing over
// receive buffers); a delivered frame must stay unchanged while the following frames arrive.
func VerifH_C20_FrameSizes() {
	sizes := []int{63, 64, 65, 255, 256, 257, 1023, 1024, 1025, 4095, 4096, 4097, 8191, 8192}
	size := sizes[vfConcrete(vfInt("size", 0, len(sizes)-1))]
	mk := func(fill byte, tag string) []byte {
		f := make([]byte, size)
		copy(f, "MSGF")
		binary.LittleEndian.PutUint32(f[4:], uint32(size))
		f[size-1], f[size/2] = fill, fill
		copy(f[8:], vfBytes(tag, 4)) // a few symbolic bytes so that the comparison is a solver query
		return f
	}
	f1, f2, f3 := mk(1, "a"), mk(2, "b"), mk(3, "c")
	tcp := vfTCP("c20", append(append(append([]byte{}, f1...), f2...), f3...))
	c, err := NewConn(tcp, &Acknowledge{ReceiveBufSize: 8192, SendBufSize: 8192})
	vfAssert(err == nil && c != nil, "NewConn fails")
	b1, err := c.Receive()
	vfAssert(err == nil && string(b1) == string(f1), "the first frame is not delivered as sent")
	vfFreeze(b1, "frame delivered earlier")
	b2, err := c.Receive()
	vfAssert(err == nil && string(b2) == string(f2), "the second frame is not delivered as sent")
	vfFreeze(b2, "frame delivered earlier")
	b3, err := c.Receive()
	vfAssert(err == nil && string(b3) == string(f3), "the third frame is not delivered as sent")
	vfAssert(string(b1) == string(f1) && string(b2) == string(f2), "a frame delivered earlier changed while later frames arrived")
	vfReach("stable")
}
