package ua

// C02 — decoding arbitrary bytes is safe: no panic, bounded allocation, terminates,
// and never consumes more than the input.

func vfC02Input(param string, def int) []byte {
	n := vfConcrete(vfInt("n", 0, vfParam(param, def)))
	// allocation budget: 256 bytes per input byte + 4 MiB (see DESIGN §2.6)
	vfAllocBudget(256*n + 4<<20)
	return vfBytes("in", n)
}

func vfC02Check(k int, err error, in []byte) {
	vfAllocCheck()
	if err == nil {
		vfAssert(k >= 0 && k <= len(in), "decoder reports more bytes consumed than the input holds")
		vfReach("ok")
	} else {
		vfReach("err")
	}
}

func VerifH_C02_Variant() {
	in := vfC02Input("c02.n.variant", 5)
	v := new(Variant)
	k, err := v.Decode(in)
	vfC02Check(k, err, in)
}

func VerifH_C02_NodeID() {
	in := vfC02Input("c02.n.nodeid", 8)
	v := new(NodeID)
	k, err := v.Decode(in)
	vfC02Check(k, err, in)
}

func VerifH_C02_ExpandedNodeID() {
	in := vfC02Input("c02.n.expnodeid", 8)
	v := new(ExpandedNodeID)
	k, err := v.Decode(in)
	vfC02Check(k, err, in)
}

func VerifH_C02_DataValue() {
	in := vfC02Input("c02.n.datavalue", 5)
	v := new(DataValue)
	k, err := v.Decode(in)
	vfC02Check(k, err, in)
}

func VerifH_C02_DiagnosticInfo() {
	in := vfC02Input("c02.n.diag", 6)
	v := new(DiagnosticInfo)
	k, err := v.Decode(in)
	vfC02Check(k, err, in)
}

func VerifH_C02_LocalizedText() {
	in := vfC02Input("c02.n.loctext", 8)
	v := new(LocalizedText)
	k, err := v.Decode(in)
	vfC02Check(k, err, in)
}

func VerifH_C02_QualifiedName() {
	in := vfC02Input("c02.n.qname", 8)
	v := new(QualifiedName)
	k, err := Decode(in, v)
	vfC02Check(k, err, in)
}

func VerifH_C02_ExtensionObject() {
	in := vfC02Input("c02.n.extobj", 7)
	v := new(ExtensionObject)
	k, err := v.Decode(in)
	vfC02Check(k, err, in)
}

func VerifH_C02_GUID() {
	in := vfC02Input("c02.n.guid", 17)
	v := new(GUID)
	k, err := v.Decode(in)
	vfC02Check(k, err, in)
}

// reflection-driven generic decoder on service messages
func VerifH_C02_ReadRequest() {
	in := vfC02Input("c02.n.readreq", 8)
	v := new(ReadValueID)
	k, err := Decode(in, v)
	vfC02Check(k, err, in)
}

func VerifH_C02_StringSlice() {
	in := vfC02Input("c02.n.strslice", 8)
	var v struct {
		A []string
		B []uint16
		C [2]uint8
	}
	k, err := Decode(in, &v)
	vfC02Check(k, err, in)
}

// structured: array Variants of selected element types with symbolic flags, length, dimensions
func VerifH_C02_VariantArray() {
	n := vfConcrete(vfInt("n", 5, vfParam("c02.n.varray", 17)))
	vfAllocBudget(256*n + 4<<20)
	in := vfBytes("in", n)
	types := []byte{byte(TypeIDInt32), byte(TypeIDByte), byte(TypeIDBoolean)}
	t := types[vfConcrete(vfInt("elemType", 0, len(types)-1))]
	vfAssume(in[0]&0x3f == t && in[0]&VariantArrayValues != 0)
	v := new(Variant)
	k, err := v.Decode(in)
	vfC02Check(k, err, in)
}

// Array dimensions whose product overflows: three dimensions from a set of boundary values,
// the fourth symbolic (any int32), array length 0 or 1. Decoding must end (the loop bound of
// the executor reports a candidate hang, which the native replay confirms by its time limit),
// without panic and within the allocation budget.
func VerifH_C02_VariantDims() {
	cand := []uint32{1, 2, 9, 0x10000, 0x38E38E39, 0x7fffffff}
	l := vfConcrete(vfInt("arrayLength", 0, 1))
	in := []byte{byte(TypeIDInt32) | VariantArrayValues | VariantArrayDimensions}
	put := func(v uint32) { in = append(in, byte(v), byte(v>>8), byte(v>>16), byte(v>>24)) }
	put(uint32(l))
	for i := 0; i < l; i++ {
		in = append(in, vfBytes("element", 4)...)
	}
	put(4)
	for i := 0; i < 3; i++ {
		put(cand[vfConcrete(vfInt("dim", 0, len(cand)-1))])
	}
	in = append(in, vfBytes("lastDim", 4)...)
	vfAllocBudget(256*len(in) + 4<<20)
	v := new(Variant)
	k, err := v.Decode(in)
	vfC02Check(k, err, in)
}
