package ua

// C04 — NodeID textual form round-trips; Equal matches identity.

// vfNumericNodeID builds a numeric-family NodeID in the encoding enc (0 two-byte, 1 four-byte, 2 numeric).
func vfNumericNodeID(enc int, ns uint16, id uint32) *NodeID {
	switch enc {
	case 0:
		vfAssume(ns == 0 && id < 256)
		return NewTwoByteNodeID(uint8(id))
	case 1:
		vfAssume(ns < 256 && id < 65536)
		return NewFourByteNodeID(uint8(ns), uint16(id))
	default:
		return NewNumericNodeID(ns, id)
	}
}

func vfCheckParse(x *NodeID) *NodeID {
	s := x.String()
	y, err := ParseNodeID(s)
	vfAssert(err == nil, "ParseNodeID(String(x)) fails")
	if err != nil {
		return nil
	}
	vfAssert(y.Equal(x), "ParseNodeID(String(x)) is not Equal to x")
	vfAssert(y.Namespace() == x.Namespace(), "namespace changed by String/Parse")
	return y
}

// numeric ids, all three encodings, every ns/id.
func VerifH_C04_Numeric() {
	enc := vfConcrete(vfInt("enc", 0, 2))
	ns := vfU16("ns")
	id := vfU32("id")
	x := vfNumericNodeID(enc, ns, id)
	y := vfCheckParse(x)
	if y != nil {
		vfAssert(y.IntID() == id, "numeric id changed by String/Parse")
		t := y.Type()
		vfAssert(t == NodeIDTypeTwoByte || t == NodeIDTypeFourByte || t == NodeIDTypeNumeric, "numeric id parsed as another kind")
		vfReach("parsed")
	}
}

// string ids: every byte string of length <= L (so ';', '=', "ns=", "i=" look-alikes are all covered).
func VerifH_C04_String() {
	l := vfConcrete(vfInt("len", 0, vfParam("c04.strlen", 3)))
	nsZero := vfBool("nsZero")
	ns := vfU16("ns")
	if nsZero {
		ns = 0
	} else {
		vfAssume(ns != 0)
	}
	id := vfString("id", l)
	x := NewStringNodeID(ns, id)
	y := vfCheckParse(x)
	if y != nil {
		vfAssert(y.Type() == NodeIDTypeString, "string id parsed as another kind")
		vfAssert(y.StringID() == id, "string id changed by String/Parse")
		vfReach("parsed")
	}
}

// opaque (ByteString) ids.
func VerifH_C04_Opaque() {
	l := vfConcrete(vfInt("len", 0, vfParam("c04.opaquelen", 3)))
	ns := vfU16("ns")
	id := vfBytes("id", l)
	x := NewByteStringNodeID(ns, id)
	y := vfCheckParse(x)
	if y != nil {
		vfAssert(y.Type() == NodeIDTypeByteString, "opaque id parsed as another kind")
		vfAssert(string(y.bid) == string(id), "opaque id changed by String/Parse")
		vfReach("parsed")
	}
}

// GUID ids: 16 arbitrary bytes.
func VerifH_C04_GUID() {
	ns := vfU16("ns")
	g := &GUID{Data1: vfU32("d1"), Data2: vfU16("d2"), Data3: vfU16("d3"), Data4: vfBytes("d4", 8)}
	x := &NodeID{mask: NodeIDTypeGUID, ns: ns, gid: g}
	y := vfCheckParse(x)
	if y != nil {
		vfAssert(y.Type() == NodeIDTypeGUID && y.gid != nil, "guid id parsed as another kind")
		if y.gid != nil {
			vfAssert(y.gid.Data1 == g.Data1 && y.gid.Data2 == g.Data2 && y.gid.Data3 == g.Data3 && string(y.gid.Data4) == string(g.Data4), "guid changed by String/Parse")
		}
		vfReach("parsed")
	}
}

// Equal <=> same namespace, same identifier, same kind (numeric encodings identified).
// "identity => Equal": the same (ns, id) in any two numeric encodings compares Equal.
func VerifH_C04_EqualNumeric() {
	e1 := vfConcrete(vfInt("enc1", 0, 2))
	e2 := vfConcrete(vfInt("enc2", 0, 2))
	ns, id := vfU16("ns"), vfU32("id")
	_ = NewNumericNodeID(ns, id).String() // no effect; lets gsx put ns and id in digit form first
	x := vfNumericNodeID(e1, ns, id)
	y := vfNumericNodeID(e2, ns, id)
	vfAssert(x.Equal(y), "the same (namespace, numeric id) in two encodings does not compare Equal")
	vfReach("compared")
}

// "Equal => identity", decided directly for every pair of small ids (ns < 256, id < 65536);
// for the full 32-bit range it follows from VerifH_C04_Numeric (ParseNodeID is a function
// and returns the original namespace and id).
func VerifH_C04_EqualNumericDistinct() {
	ns1, id1 := uint16(vfU8("ns1")), uint32(vfU16("id1"))
	ns2, id2 := uint16(vfU8("ns2")), uint32(vfU16("id2"))
	x := NewNumericNodeID(ns1, id1)
	y := NewNumericNodeID(ns2, id2)
	want := ns1 == ns2 && id1 == id2
	vfAssert(x.Equal(y) == want, "Equal disagrees with (namespace, numeric id) identity")
	vfReach("compared")
}

func VerifH_C04_EqualString() {
	l1 := vfConcrete(vfInt("len1", 0, vfParam("c04.eqlen", 2)))
	l2 := vfConcrete(vfInt("len2", 0, vfParam("c04.eqlen", 2)))
	ns1, ns2 := vfU16("ns1"), vfU16("ns2")
	s1, s2 := vfString("s1", l1), vfString("s2", l2)
	x := NewStringNodeID(ns1, s1)
	y := NewStringNodeID(ns2, s2)
	want := ns1 == ns2 && s1 == s2
	vfAssert(x.Equal(y) == want, "Equal disagrees with (namespace, string id) identity")
	vfReach("compared")
}

// different identifier kinds never compare equal.
func VerifH_C04_EqualMixed() {
	l := vfConcrete(vfInt("len", 0, vfParam("c04.mixlen", 4)))
	ns := vfU16("ns")
	s := vfString("s", l)
	k := vfConcrete(vfInt("kind", 0, 2))
	x := NewStringNodeID(ns, s)
	var y *NodeID
	switch k {
	case 0:
		y = NewNumericNodeID(vfU16("ns2"), vfU32("id"))
	case 1:
		y = NewByteStringNodeID(vfU16("ns2"), vfBytes("b", vfConcrete(vfInt("blen", 0, 3))))
	default:
		y = &NodeID{mask: NodeIDTypeGUID, ns: vfU16("ns2"), gid: &GUID{Data1: vfU32("d1"), Data2: vfU16("d2"), Data3: vfU16("d3"), Data4: vfBytes("d4", 8)}}
	}
	vfAssert(!x.Equal(y), "NodeIDs of different identifier kinds compare Equal")
	vfAssert(!y.Equal(x), "NodeIDs of different identifier kinds compare Equal (sym)")
	vfReach("compared")
}

// nsu=<uri> resolves to the index of the URI in the namespace table.
func VerifH_C04_ExpandedURI() {
	table := []string{"http://opcfoundation.org/UA/", "urn:a", "urn:b"}
	k := vfConcrete(vfInt("k", 0, 2))
	id := vfU32("id")
	s := "nsu=" + table[k] + ";i=" + NewNumericNodeID(0, id).String()[2:]
	e, err := ParseExpandedNodeID(s, table)
	vfAssert(err == nil, "ParseExpandedNodeID(nsu=known) fails")
	if err == nil {
		vfAssert(int(e.NodeID.Namespace()) == k, "nsu= resolved to the wrong namespace index")
		vfAssert(e.NodeID.IntID() == id, "numeric id changed")
		vfReach("parsed")
	}
}
