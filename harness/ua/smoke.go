package ua

func VerifH_Smoke() {
	x := vfU32("x")
	b := NewBuffer(nil)
	b.WriteUint32(x)
	r := NewBuffer(b.Bytes()).ReadUint32()
	vfAssert(r == x, "roundtrip")
	vfReach("end")
}

func VerifH_SmokeBad() {
	x := vfU32("x")
	b := NewBuffer(nil)
	b.WriteUint32(x)
	r := NewBuffer(b.Bytes()).ReadUint16()
	vfAssert(uint32(r) == x, "roundtrip16")
}

func VerifH_SmokeVariant() {
	n := vfInt("n", 0, 6)
	n = vfConcrete(n)
	in := vfBytes("in", n)
	v := new(Variant)
	k, err := v.Decode(in)
	if err == nil {
		vfReach("ok")
		vfAssert(k <= len(in), "consumed")
	}
}
