package ua

import (
	"reflect"
	"time"
)

// C01 — the binary codec round-trips values (encode, decode, compare; all bytes consumed).
//
// Values are built with the library's constructors from symbolic leaves. Canonical forms only
// (what a constructor or the decoder produces): strings/byte strings nil or non-empty, times
// on the 100 ns grid, masks consistent with the fields.

func vfTime(tag string) time.Time {
	k := vfU32(tag)
	if k == 0 {
		return time.Time{}
	}
	return time.Unix(0, int64(k)*100).UTC()
}

func vfStr(tag string) string { return vfString(tag, vfConcrete(vfInt(tag+".len", 0, 2))) }

func vfRoundTrip(v interface{}, fresh interface{}) {
	enc, err := Encode(v)
	vfAssert(err == nil, "Encode fails on a valid value")
	if err != nil {
		return
	}
	n, err := Decode(enc, fresh)
	vfAssert(err == nil, "Decode fails on the encoding of a valid value")
	if err != nil {
		return
	}
	vfAssert(n == len(enc), "Decode does not consume exactly the encoded bytes")
	vfAssert(reflect.DeepEqual(v, fresh), "decode(encode(v)) differs from v")
	vfReach("roundtrip")
}

func vfNodeID(tag string) *NodeID {
	switch vfConcrete(vfInt(tag+".enc", 0, 5)) {
	case 0:
		return NewTwoByteNodeID(vfU8(tag + ".id"))
	case 1:
		return NewFourByteNodeID(vfU8(tag+".ns"), vfU16(tag+".id"))
	case 2:
		return NewNumericNodeID(vfU16(tag+".ns"), vfU32(tag+".id"))
	case 3:
		return NewStringNodeID(vfU16(tag+".ns"), vfString(tag+".s", vfConcrete(vfInt(tag+".len", 1, 2))))
	case 4:
		return NewByteStringNodeID(vfU16(tag+".ns"), vfBytes(tag+".b", vfConcrete(vfInt(tag+".len", 1, 2))))
	}
	return &NodeID{mask: NodeIDTypeGUID, ns: vfU16(tag + ".ns"), gid: &GUID{Data1: vfU32(tag + ".d1"), Data2: vfU16(tag + ".d2"), Data3: vfU16(tag + ".d3"), Data4: vfBytes(tag+".d4", 8)}}
}

func VerifH_C01_NodeID() { vfRoundTrip(vfNodeID("n"), new(NodeID)) }

func VerifH_C01_ExpandedNodeID() {
	e := &ExpandedNodeID{NodeID: vfNodeID("n")}
	if vfBool("hasURI") {
		e.NodeID.SetURIFlag()
		e.NamespaceURI = vfString("uri", vfConcrete(vfInt("uri.len", 1, 2)))
	}
	if vfBool("hasIndex") {
		e.NodeID.SetIndexFlag()
		e.ServerIndex = vfU32("index")
	}
	vfRoundTrip(e, new(ExpandedNodeID))
}

func VerifH_C01_LocalizedText() {
	l := &LocalizedText{Locale: vfStr("locale"), Text: vfStr("text")}
	l.UpdateMask()
	vfRoundTrip(l, new(LocalizedText))
}

func VerifH_C01_QualifiedName() {
	vfRoundTrip(&QualifiedName{NamespaceIndex: vfU16("ns"), Name: vfStr("name")}, new(QualifiedName))
}

func VerifH_C01_GUID() {
	vfRoundTrip(&GUID{Data1: vfU32("d1"), Data2: vfU16("d2"), Data3: vfU16("d3"), Data4: vfBytes("d4", 8)}, new(GUID))
}

func vfScalar(tag string) interface{} {
	switch vfConcrete(vfInt(tag+".type", 0, 16)) {
	case 0:
		return vfBool(tag)
	case 1:
		return int8(vfU8(tag))
	case 2:
		return vfU8(tag)
	case 3:
		return int16(vfU16(tag))
	case 4:
		return vfU16(tag)
	case 5:
		return int32(vfU32(tag))
	case 6:
		return vfU32(tag)
	case 7:
		return int64(vfU64(tag))
	case 8:
		return vfU64(tag)
	case 9:
		return vfStr(tag)
	case 10:
		return vfTime(tag)
	case 11:
		return vfBytes(tag, vfConcrete(vfInt(tag+".len", 1, 2)))
	case 12:
		return vfNodeID(tag)
	case 13:
		return StatusCode(vfU32(tag))
	case 14:
		return &QualifiedName{NamespaceIndex: vfU16(tag + ".ns"), Name: vfStr(tag + ".name")}
	case 15:
		l := &LocalizedText{Locale: vfStr(tag + ".locale"), Text: vfStr(tag + ".text")}
		l.UpdateMask()
		return l
	}
	return &GUID{Data1: vfU32(tag + ".d1"), Data2: vfU16(tag + ".d2"), Data3: vfU16(tag + ".d3"), Data4: vfBytes(tag+".d4", 8)}
}

func vfVariantRoundTrip(val interface{}) {
	v, err := NewVariant(val)
	vfAssert(err == nil && v != nil, "NewVariant rejects a supported value")
	if err != nil {
		return
	}
	enc, err := v.Encode()
	vfAssert(err == nil, "Variant.Encode fails")
	if err != nil {
		return
	}
	w := new(Variant)
	n, err := w.Decode(enc)
	vfAssert(err == nil && n == len(enc), "Variant.Decode fails or does not consume the encoding")
	if err != nil {
		return
	}
	vfAssert(w.Type() == v.Type() && reflect.DeepEqual(w.Value(), v.Value()), "decoded Variant differs from the encoded one")
	vfAssert(reflect.DeepEqual(w.ArrayDimensions(), v.ArrayDimensions()) && w.ArrayLength() == v.ArrayLength(), "array shape changed")
	vfReach("roundtrip")
}

func VerifH_C01_VariantScalar() { vfVariantRoundTrip(vfScalar("v")) }

func VerifH_C01_VariantArray() {
	u := func(tag string) int32 { return int32(vfU32(tag)) }
	switch vfConcrete(vfInt("shape", 0, 9)) {
	case 7: // three dimensions, trailing dimensions larger than one
		vfVariantRoundTrip([][][]int32{{{u("a"), u("b")}, {u("c"), u("d")}}, {{u("e"), u("f")}, {u("g"), u("h")}}})
	case 8: // 2 x 3 x 2
		vfVariantRoundTrip([][][]uint8{{{vfU8("a"), vfU8("b")}, {vfU8("c"), vfU8("d")}, {vfU8("e"), vfU8("f")}}, {{vfU8("g"), vfU8("h")}, {vfU8("i"), vfU8("j")}, {vfU8("k"), vfU8("l")}}})
	case 9: // 1 x 2 x 1 x 2
		vfVariantRoundTrip([][][][]int32{{{{u("a"), u("b")}}, {{u("c"), u("d")}}}})
	case 0:
		vfVariantRoundTrip([]int32{})
	case 1:
		vfVariantRoundTrip([]int32{int32(vfU32("a"))})
	case 2:
		vfVariantRoundTrip([]uint16{vfU16("a"), vfU16("b")})
	case 3:
		vfVariantRoundTrip([][]int32{{int32(vfU32("a")), int32(vfU32("b"))}})
	case 4:
		vfVariantRoundTrip([][]int32{{int32(vfU32("a"))}, {int32(vfU32("b"))}})
	case 5:
		vfVariantRoundTrip([][]uint8{{vfU8("a"), vfU8("b")}, {vfU8("c"), vfU8("d")}})
	case 6:
		vfVariantRoundTrip([]string{vfStr("a"), vfStr("b")})
	}
}

func vfDataValue(tag string) *DataValue {
	d := &DataValue{Value: new(Variant)}
	if vfBool(tag + ".hasValue") {
		d.Value = MustVariant(int32(vfU32(tag + ".value")))
		d.EncodingMask |= DataValueValue
	}
	if vfBool(tag + ".hasStatus") {
		d.Status = StatusCode(vfU32(tag + ".status"))
		d.EncodingMask |= DataValueStatusCode
	}
	if vfBool(tag + ".hasSource") {
		d.SourceTimestamp = vfTime(tag + ".source")
		d.EncodingMask |= DataValueSourceTimestamp
	}
	if vfBool(tag + ".hasSourcePico") {
		d.SourcePicoseconds = vfU16(tag + ".sourcePico")
		d.EncodingMask |= DataValueSourcePicoseconds
	}
	if vfBool(tag + ".hasServer") {
		d.ServerTimestamp = vfTime(tag + ".server")
		d.EncodingMask |= DataValueServerTimestamp
	}
	if vfBool(tag + ".hasServerPico") {
		d.ServerPicoseconds = vfU16(tag + ".serverPico")
		d.EncodingMask |= DataValueServerPicoseconds
	}
	return d
}

func VerifH_C01_DataValue() { vfRoundTrip(vfDataValue("d"), new(DataValue)) }

func vfDiag(tag string, depth int) *DiagnosticInfo {
	d := &DiagnosticInfo{}
	if vfBool(tag + ".sym") {
		d.SymbolicID = int32(vfU32(tag + ".symv"))
		d.EncodingMask |= DiagnosticInfoSymbolicID
	}
	if vfBool(tag + ".ns") {
		d.NamespaceURI = int32(vfU32(tag + ".nsv"))
		d.EncodingMask |= DiagnosticInfoNamespaceURI
	}
	if vfBool(tag + ".loctext") {
		d.LocalizedText = int32(vfU32(tag + ".loctextv"))
		d.EncodingMask |= DiagnosticInfoLocalizedText
	}
	if vfBool(tag + ".locale") {
		d.Locale = int32(vfU32(tag + ".localev"))
		d.EncodingMask |= DiagnosticInfoLocale
	}
	if vfBool(tag + ".info") {
		d.AdditionalInfo = vfString(tag+".infov", 1)
		d.EncodingMask |= DiagnosticInfoAdditionalInfo
	}
	if vfBool(tag + ".status") {
		d.InnerStatusCode = StatusCode(vfU32(tag + ".statusv"))
		d.EncodingMask |= DiagnosticInfoInnerStatusCode
	}
	if depth > 0 && vfBool(tag+".inner") {
		d.InnerDiagnosticInfo = vfDiag(tag+".in", depth-1)
		d.EncodingMask |= DiagnosticInfoInnerDiagnosticInfo
	}
	return d
}

func VerifH_C01_DiagnosticInfo() { vfRoundTrip(vfDiag("d", 1), new(DiagnosticInfo)) }

func VerifH_C01_ExtensionObject() {
	var e *ExtensionObject
	switch vfConcrete(vfInt("kind", 0, 2)) {
	case 0:
		e = NewExtensionObject(nil)
	case 1:
		e = NewExtensionObject(&AnonymousIdentityToken{PolicyID: vfStr("policy")})
	default:
		e = NewExtensionObject(&UserNameIdentityToken{PolicyID: vfStr("policy"), UserName: vfStr("user"), Password: vfBytes("pw", 2), EncryptionAlgorithm: vfStr("alg")})
	}
	vfRoundTrip(e, new(ExtensionObject))
}

// service messages through the reflection codec and the service registry
func vfReqHeader() *RequestHeader {
	return &RequestHeader{AuthenticationToken: NewNumericNodeID(vfU16("authns"), vfU32("auth")), Timestamp: vfTime("ts"), RequestHandle: vfU32("handle"), ReturnDiagnostics: vfU32("diag"),
		AuditEntryID: vfString("audit", 1), TimeoutHint: vfU32("timeout"), AdditionalHeader: NewExtensionObject(nil)}
}

func vfServiceRoundTrip(svc interface{}, fresh interface{}) {
	vfRoundTrip(svc, fresh)
	// with the type id in front, DecodeService must pick the same type
	typeID := ServiceTypeID(svc)
	vfAssert(typeID != 0, "service is not registered")
	body, _ := Encode(svc)
	tid, _ := Encode(NewFourByteExpandedNodeID(0, typeID))
	_, got, err := DecodeService(append(tid, body...))
	vfAssert(err == nil && reflect.TypeOf(got) == reflect.TypeOf(svc), "DecodeService returns another type")
	vfAssert(reflect.DeepEqual(got, svc), "DecodeService(encode(v)) differs from v")
}

func VerifH_C01_ReadRequest() {
	r := &ReadRequest{RequestHeader: vfReqHeader(), MaxAge: 1.5, TimestampsToReturn: TimestampsToReturn(vfU32("ttr"))}
	n := vfConcrete(vfInt("nodes", 0, 2))
	if n > 0 {
		r.NodesToRead = make([]*ReadValueID, n)
		for i := range r.NodesToRead {
			r.NodesToRead[i] = &ReadValueID{NodeID: NewNumericNodeID(vfU16("nns"), vfU32("nid")), AttributeID: AttributeID(vfU32("attr")), IndexRange: vfString("range", 1), DataEncoding: &QualifiedName{NamespaceIndex: vfU16("qns"), Name: vfString("qname", 1)}}
		}
	}
	vfServiceRoundTrip(r, new(ReadRequest))
}

func VerifH_C01_ReadResponse() {
	r := &ReadResponse{ResponseHeader: &ResponseHeader{Timestamp: vfTime("ts"), RequestHandle: vfU32("handle"), ServiceResult: StatusCode(vfU32("result")),
		ServiceDiagnostics: vfDiag("sd", 0), AdditionalHeader: NewExtensionObject(nil)}}
	n := vfConcrete(vfInt("results", 0, 2))
	if n > 0 {
		r.Results = make([]*DataValue, n)
		for i := range r.Results {
			// (the DataValue mask combinations are covered by VerifH_C01_DataValue)
			r.Results[i] = &DataValue{EncodingMask: DataValueValue | DataValueStatusCode, Value: MustVariant(int32(vfU32("value"))), Status: StatusCode(vfU32("status"))}
		}
	}
	vfServiceRoundTrip(r, new(ReadResponse))
}
