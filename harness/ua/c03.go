package ua

import "reflect"

// C03 — any successfully decoded value can be re-encoded and decodes identically.

type vfCodec interface {
	Decode([]byte) (int, error)
	Encode() ([]byte, error)
}

func vfC03(param string, def int, mk func() vfCodec) {
	n := vfConcrete(vfInt("n", 0, vfParam(param, def)))
	in := vfBytes("in", n)
	v1 := mk()
	k, err := v1.Decode(in)
	if err != nil {
		vfReach("undecodable")
		return
	}
	_ = k
	enc, err := v1.Encode()
	vfAssert(err == nil, "a decoded value cannot be encoded again")
	if err != nil {
		return
	}
	v2 := mk()
	k2, err := v2.Decode(enc)
	vfAssert(err == nil, "the re-encoding of a decoded value does not decode")
	if err != nil {
		return
	}
	vfAssert(k2 == len(enc), "the re-encoding is not consumed completely")
	vfAssert(reflect.DeepEqual(v1, v2), "decode(encode(decode(b))) differs from decode(b)")
	vfReach("stable")
}

func VerifH_C03_NodeID()         { vfC03("c03.n.nodeid", 7, func() vfCodec { return new(NodeID) }) }
func VerifH_C03_ExpandedNodeID() { vfC03("c03.n.expnodeid", 7, func() vfCodec { return new(ExpandedNodeID) }) }
func VerifH_C03_LocalizedText()  { vfC03("c03.n.loctext", 7, func() vfCodec { return new(LocalizedText) }) }
func VerifH_C03_Variant()        { vfC03("c03.n.variant", 4, func() vfCodec { return new(Variant) }) }
func VerifH_C03_DataValue()      { vfC03("c03.n.datavalue", 3, func() vfCodec { return new(DataValue) }) }
func VerifH_C03_DiagnosticInfo() { vfC03("c03.n.diag", 5, func() vfCodec { return new(DiagnosticInfo) }) }
func VerifH_C03_ExtensionObject() {
	vfC03("c03.n.extobj", 7, func() vfCodec { return new(ExtensionObject) })
}
func VerifH_C03_GUID() { vfC03("c03.n.guid", 16, func() vfCodec { return new(GUID) }) }

// scalar / array Variants of selected types with the remaining bytes symbolic
func VerifH_C03_VariantShapes() {
	n := vfConcrete(vfInt("n", 1, vfParam("c03.n.vshape", 14)))
	in := vfBytes("in", n)
	types := []byte{byte(TypeIDInt32), byte(TypeIDByte), byte(TypeIDBoolean), byte(TypeIDString)}
	t := types[vfConcrete(vfInt("elemType", 0, len(types)-1))]
	vfAssume(in[0]&0x3f == t)
	v1 := new(Variant)
	if _, err := v1.Decode(in); err != nil {
		vfReach("undecodable")
		return
	}
	enc, err := v1.Encode()
	vfAssert(err == nil, "a decoded Variant cannot be encoded again")
	if err != nil {
		return
	}
	v2 := new(Variant)
	k2, err := v2.Decode(enc)
	vfAssert(err == nil && k2 == len(enc), "the re-encoding of a decoded Variant does not decode completely")
	if err != nil {
		return
	}
	vfAssert(reflect.DeepEqual(v1.Value(), v2.Value()) && v1.Type() == v2.Type(), "decode(encode(decode(b))) differs from decode(b)")
	vfReach("stable")
}
