package ua

import (
	"encoding/binary"
	"reflect"
)

// C03 — any successfully decoded value can be re-encoded and decodes identically.

type vfCodec interface {
	Decode([]byte) (int, error)
	Encode() ([]byte, error)
}

func vfC03(param string, def int, mk func() vfCodec) {
	n := vfConcrete(vfInt("n", 0, vfParam(param, def)))
	in := vfBytes("in", n)
	v1 := mk()
	k, err := v1.Decode(in)
	if err != nil {
		vfReach("undecodable")
		return
	}
	_ = k
	enc, err := v1.Encode()
	vfAssert(err == nil, "a decoded value cannot be encoded again")
	if err != nil {
		return
	}
	v2 := mk()
	k2, err := v2.Decode(enc)
	vfAssert(err == nil, "the re-encoding of a decoded value does not decode")
	if err != nil {
		return
	}
	vfAssert(k2 == len(enc), "the re-encoding is not consumed completely")
	if !reflect.DeepEqual(v1, v2) {
		// a float NaN is not equal to itself: a value that differs from a second decoding of the
		// same bytes contains one; such values are compared by their encodings instead
		v1b := mk()
		v1b.Decode(in)
		enc2, err2 := v2.Encode()
		nan := !reflect.DeepEqual(v1, v1b)
		vfAssert(nan && err2 == nil && string(enc2) == string(enc), "decode(encode(decode(b))) differs from decode(b)")
		vfReach("nan")
	}
	vfReach("stable")
}

func VerifH_C03_NodeID()         { vfC03("c03.n.nodeid", 7, func() vfCodec { return new(NodeID) }) }
func VerifH_C03_ExpandedNodeID() { vfC03("c03.n.expnodeid", 7, func() vfCodec { return new(ExpandedNodeID) }) }
func VerifH_C03_LocalizedText()  { vfC03("c03.n.loctext", 7, func() vfCodec { return new(LocalizedText) }) }
func VerifH_C03_Variant()        { vfC03("c03.n.variant", 4, func() vfCodec { return new(Variant) }) }
func VerifH_C03_DataValue()      { vfC03("c03.n.datavalue", 3, func() vfCodec { return new(DataValue) }) }
func VerifH_C03_DiagnosticInfo() { vfC03("c03.n.diag", 5, func() vfCodec { return new(DiagnosticInfo) }) }
func VerifH_C03_ExtensionObject() {
	vfC03("c03.n.extobj", 7, func() vfCodec { return new(ExtensionObject) })
}
func VerifH_C03_GUID() { vfC03("c03.n.guid", 16, func() vfCodec { return new(GUID) }) }

// scalar / array Variants of selected types with the remaining bytes symbolic
func VerifH_C03_VariantShapes() {
	n := vfConcrete(vfInt("n", 1, vfParam("c03.n.vshape", 14)))
	in := vfBytes("in", n)
	types := []byte{byte(TypeIDInt32), byte(TypeIDByte), byte(TypeIDBoolean), byte(TypeIDString)}
	t := types[vfConcrete(vfInt("elemType", 0, len(types)-1))]
	vfAssume(in[0]&0x3f == t)
	v1 := new(Variant)
	if _, err := v1.Decode(in); err != nil {
		vfReach("undecodable")
		return
	}
	enc, err := v1.Encode()
	vfAssert(err == nil, "a decoded Variant cannot be encoded again")
	if err != nil {
		return
	}
	v2 := new(Variant)
	k2, err := v2.Decode(enc)
	vfAssert(err == nil && k2 == len(enc), "the re-encoding of a decoded Variant does not decode completely")
	if err != nil {
		return
	}
	vfAssert(reflect.DeepEqual(v1.Value(), v2.Value()) && v1.Type() == v2.Type(), "decode(encode(decode(b))) differs from decode(b)")
	vfReach("stable")
}

// structured: a DataValue without a value but with any combination of the other five fields
// (status, two timestamps, two picosecond fields), all field bytes symbolic
func VerifH_C03_DataValueFields() {
	in := vfBytes("in", 25)
	vfAssume(in[0]&DataValueValue == 0 && in[0]&0xc0 == 0)
	v1 := new(DataValue)
	if _, err := v1.Decode(in); err != nil {
		vfReach("undecodable")
		return
	}
	// timestamps inside the int64-nanosecond range of time.Time (the out-of-range case is VerifH_C03_DateTimeRange)
	off := 1
	if v1.Has(DataValueStatusCode) {
		off += 4
	}
	if v1.Has(DataValueSourceTimestamp) {
		vfAssume(vfTsInRange(in[off:]))
		off += 8
	}
	if v1.Has(DataValueSourcePicoseconds) {
		off += 2
	}
	if v1.Has(DataValueServerTimestamp) {
		vfAssume(vfTsInRange(in[off:]))
	}
	enc, err := v1.Encode()
	vfAssert(err == nil, "a decoded DataValue cannot be encoded again")
	if err != nil {
		return
	}
	v2 := new(DataValue)
	k2, err := v2.Decode(enc)
	vfAssert(err == nil && k2 == len(enc), "the re-encoding of a decoded DataValue does not decode completely")
	if err != nil {
		return
	}
	vfAssert(reflect.DeepEqual(v1, v2), "decode(encode(decode(b))) differs from decode(b)")
	vfReach("stable")
}

const vfEpoch = 116444736000000000 // 100 ns ticks between 1601 and 1970

// vfTsInRange: zero, or between 1970 and 2255 (so that (ts-epoch)*100 fits an int64; dates
// before 1970 are left to VerifH_C03_DateTimeRange together with the far future)
func vfTsInRange(b []byte) bool {
	ts := binary.LittleEndian.Uint64(b)
	return ts == 0 || ts-vfEpoch <= 90000000000000000
}

// DateTime values outside what time.Time.UnixNano can represent (before 1677 / after 2262,
// e.g. the customary "max" DateTime 0x7fffffffffffffff)
func VerifH_C03_DateTimeRange() {
	in := append([]byte{DataValueSourceTimestamp}, vfBytes("ts", 8)...)
	v1 := new(DataValue)
	if _, err := v1.Decode(in); err != nil {
		return
	}
	enc, err := v1.Encode()
	vfAssert(err == nil, "a decoded DataValue cannot be encoded again")
	v2 := new(DataValue)
	_, err = v2.Decode(enc)
	vfAssert(err == nil && reflect.DeepEqual(v1, v2), "a DateTime outside the int64-nanosecond range changes when re-encoded")
	vfReach("datetime")
}
