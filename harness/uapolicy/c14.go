package uapolicy

import (
	"crypto"

	"github.com/gopcua/opcua/ua"
)

// C14 — symmetric keys follow the Part 6 P_SHA derivation and are direction-separated.

type vfSymSpec struct {
	uri                    string
	hash                   crypto.Hash
	nonceLen               int
	sigKeyLen, encKeyLen   int // bytes (Part 7: DerivedSignatureKeyLength, key size of the symmetric cipher)
	blockLen               int
	aesBits                int
	sigLen                 int // HMAC output
}

// Transcribed from OPC UA Part 7 (security policy profiles, "_Limits" and algorithm suites).
var vfSymSpecs = []vfSymSpec{
	{ua.SecurityPolicyURIBasic128Rsa15, crypto.SHA1, 16, 16, 16, 16, 128, 20},
	{ua.SecurityPolicyURIBasic256, crypto.SHA1, 32, 24, 32, 16, 256, 20},
	{ua.SecurityPolicyURIBasic256Sha256, crypto.SHA256, 32, 32, 32, 16, 256, 32},
	{ua.SecurityPolicyURIAes128Sha256RsaOaep, crypto.SHA256, 32, 32, 16, 16, 128, 32},
	{ua.SecurityPolicyURIAes256Sha256RsaPss, crypto.SHA256, 32, 32, 32, 16, 256, 32},
}

// vfPSHA is P_SHA of RFC 5246 section 5 / OPC UA Part 6 6.7.5:
//   A(0) = seed, A(i) = HMAC(secret, A(i-1)),  P = HMAC(secret, A(1)+seed) + HMAC(secret, A(2)+seed) + ...
func vfPSHA(h crypto.Hash, secret, seed []byte, n int) []byte {
	mac := &HMAC{Hash: h, Secret: secret}
	var out []byte
	a := seed
	for len(out) < n {
		a, _ = mac.Signature(a)
		blk, _ := mac.Signature(append(append([]byte{}, a...), seed...))
		out = append(out, blk...)
	}
	return out[:n]
}

func vfEqBytes(a, b []byte) bool { return string(a) == string(b) }

func VerifH_C14_Derivation() {
	pi := vfConcrete(vfInt("policy", 0, len(vfSymSpecs)-1))
	sp := vfSymSpecs[pi]
	cn := vfBytes("clientNonce", sp.nonceLen)
	sn := vfBytes("serverNonce", sp.nonceLen)

	cli, err := Symmetric(sp.uri, cn, sn) // client: local nonce = client nonce
	vfAssert(err == nil && cli != nil, "Symmetric fails for the client side")
	srv, err2 := Symmetric(sp.uri, sn, cn) // server: local nonce = server nonce
	vfAssert(err2 == nil && srv != nil, "Symmetric fails for the server side")
	if cli == nil || srv == nil {
		return
	}
	total := sp.sigKeyLen + sp.encKeyLen + sp.blockLen
	// Part 6 table 6.7.5: client keys use ServerSecret/ClientSeed, server keys use ClientSecret/ServerSeed
	ck := vfPSHA(sp.hash, sn, cn, total)
	sk := vfPSHA(sp.hash, cn, sn, total)
	cSign, cEnc, cIV := ck[:sp.sigKeyLen], ck[sp.sigKeyLen:sp.sigKeyLen+sp.encKeyLen], ck[sp.sigKeyLen+sp.encKeyLen:]
	sSign, sEnc, sIV := sk[:sp.sigKeyLen], sk[sp.sigKeyLen:sp.sigKeyLen+sp.encKeyLen], sk[sp.sigKeyLen+sp.encKeyLen:]

	cs, ok1 := cli.signature.(*HMAC)
	cv, ok2 := cli.verifySignature.(*HMAC)
	ce, ok3 := cli.encrypt.(*AES)
	cd, ok4 := cli.decrypt.(*AES)
	ss, ok5 := srv.signature.(*HMAC)
	sv, ok6 := srv.verifySignature.(*HMAC)
	se, ok7 := srv.encrypt.(*AES)
	sd, ok8 := srv.decrypt.(*AES)
	vfAssert(ok1 && ok2 && ok3 && ok4 && ok5 && ok6 && ok7 && ok8, "symmetric algorithm is not HMAC + AES")
	if !(ok1 && ok2 && ok3 && ok4 && ok5 && ok6 && ok7 && ok8) {
		return
	}
	// (1) Part 6 derivation
	vfAssert(vfEqBytes(cs.Secret, cSign), "client signing key differs from P_SHA(ServerSecret, ClientSeed)[0:sig]")
	vfAssert(vfEqBytes(ce.Secret, cEnc), "client encrypting key differs from the Part 6 derivation")
	vfAssert(vfEqBytes(ce.IV, cIV), "client IV differs from the Part 6 derivation")
	vfAssert(vfEqBytes(ss.Secret, sSign), "server signing key differs from P_SHA(ClientSecret, ServerSeed)[0:sig]")
	vfAssert(vfEqBytes(se.Secret, sEnc), "server encrypting key differs from the Part 6 derivation")
	vfAssert(vfEqBytes(se.IV, sIV), "server IV differs from the Part 6 derivation")
	// (2) what one side protects with, the other side checks with
	vfAssert(vfEqBytes(cs.Secret, sv.Secret), "server verifies with a key other than the client's signing key")
	vfAssert(vfEqBytes(ss.Secret, cv.Secret), "client verifies with a key other than the server's signing key")
	vfAssert(vfEqBytes(ce.Secret, sd.Secret) && vfEqBytes(ce.IV, sd.IV), "server decrypts with a key/IV other than the client's")
	vfAssert(vfEqBytes(se.Secret, cd.Secret) && vfEqBytes(se.IV, cd.IV), "client decrypts with a key/IV other than the server's")
	// algorithm suite parameters
	vfAssert(cs.Hash == sp.hash && cv.Hash == sp.hash, "wrong HMAC hash for the policy")
	vfAssert(ce.KeyLength == sp.aesBits && cd.KeyLength == sp.aesBits, "wrong AES key length for the policy")
	vfAssert(len(ce.Secret)*8 == sp.aesBits, "derived encrypting key length differs from the AES key length")
	vfAssert(cli.SignatureLength() == sp.sigLen && cli.RemoteSignatureLength() == sp.sigLen, "wrong symmetric signature length")
	vfAssert(cli.BlockSize() == 16 && cli.PlaintextBlockSize() == 16, "wrong symmetric block sizes")
	vfReach("derived")
}

// (3) direction separation: with different nonces a side's own signing key differs from the
// key it verifies with, so reflected traffic does not verify. Needs collision resistance of
// HMAC (injective uninterpreted function) and a signing key that contains a whole hash block.
func VerifH_C14_Separation() {
	vfCryptoInjective(true)
	pi := vfConcrete(vfInt("policy", 1, len(vfSymSpecs)-1))
	sp := vfSymSpecs[pi]
	cn := vfBytes("clientNonce", sp.nonceLen)
	sn := vfBytes("serverNonce", sp.nonceLen)
	vfAssume(!vfEqBytes(cn, sn))
	cli, err := Symmetric(sp.uri, cn, sn)
	vfAssert(err == nil && cli != nil, "Symmetric fails")
	if cli == nil {
		return
	}
	cs, ok1 := cli.signature.(*HMAC)
	cv, ok2 := cli.verifySignature.(*HMAC)
	if !ok1 || !ok2 {
		return
	}
	vfAssert(!vfEqBytes(cs.Secret, cv.Secret), "a side signs and verifies with the same key although the nonces differ")
	vfReach("separated")
}
