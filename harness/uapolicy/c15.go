package uapolicy

import (
	"crypto"
	"crypto/rsa"

	"github.com/gopcua/opcua/ua"
)

// C15 — asymmetric crypto is correct for all lengths and enforces key size limits.

type vfAsymSpec struct {
	uri            string
	minKey, maxKey int // bytes, Part 7 Min/MaxAsymmetricKeyLength
	oaep           bool
	encHash        crypto.Hash // OAEP hash
	nonceLen       int
}

var vfAsymSpecs = []vfAsymSpec{
	{ua.SecurityPolicyURIBasic128Rsa15, 128, 256, false, 0, 16},
	{ua.SecurityPolicyURIBasic256, 128, 256, true, crypto.SHA1, 32},
	{ua.SecurityPolicyURIBasic256Sha256, 256, 512, true, crypto.SHA1, 32},
	{ua.SecurityPolicyURIAes128Sha256RsaOaep, 256, 512, true, crypto.SHA1, 32},
	{ua.SecurityPolicyURIAes256Sha256RsaPss, 256, 512, true, crypto.SHA256, 32},
}

// maximum plaintext Go's primitive accepts in one RSA block of k bytes
func (s vfAsymSpec) maxBlock(k int) int {
	if !s.oaep {
		return k - 11
	}
	if s.encHash == crypto.SHA256 {
		return k - 2*32 - 2
	}
	return k - 2*20 - 2
}

// key size limits: an algorithm is constructed iff both key sizes are inside the policy's range.
func VerifH_C15_KeyLimits() {
	pi := vfConcrete(vfInt("policy", 0, len(vfAsymSpecs)-1))
	sp := vfAsymSpecs[pi]
	ls := vfInt("localKeyBytes", 1, 1024)
	rs := vfInt("remoteKeyBytes", 1, 1024)
	local := vfRSAKey("local", ls)
	remote := vfRSAKey("remote", rs)
	algo, err := Asymmetric(sp.uri, local, &remote.PublicKey)
	inRange := ls >= sp.minKey && ls <= sp.maxKey && rs >= sp.minKey && rs <= sp.maxKey
	if inRange {
		vfAssert(err == nil && algo != nil, "keys inside the policy's size range are rejected")
		if algo == nil {
			return
		}
		vfAssert(algo.BlockSize() == rs, "asymmetric cipher block size differs from the remote key size")
		vfAssert(algo.SignatureLength() == ls && algo.RemoteSignatureLength() == rs, "signature lengths differ from the key sizes")
		vfAssert(algo.PlaintextBlockSize() > 0 && algo.PlaintextBlockSize() <= sp.maxBlock(rs), "plaintext block size exceeds what one RSA block can hold")
		vfAssert(algo.NonceLength() == sp.nonceLen, "wrong nonce length for the policy")
		vfReach("accepted")
	} else {
		vfAssert(err != nil, "a key outside the policy's size range is accepted")
		vfReach("rejected")
	}
}

func vfAsym(sp vfAsymSpec, local *rsa.PrivateKey, remote *rsa.PublicKey) *EncryptionAlgorithm {
	algo, err := Asymmetric(sp.uri, local, remote)
	vfAssert(err == nil && algo != nil, "Asymmetric fails for keys of an allowed size")
	return algo
}

// lengths for every key size: ciphertext is ceil(n / maxBlock) blocks of k bytes, for n up to 3 blocks + 1.
func VerifH_C15_Lengths() {
	vfOpaqueAlloc(true)
	pi := vfConcrete(vfInt("policy", 0, len(vfAsymSpecs)-1))
	sp := vfAsymSpecs[pi]
	k := vfInt("keyBytes", sp.minKey, sp.maxKey)
	a := vfRSAKey("a", k)
	b := vfRSAKey("b", k)
	algo := vfAsym(sp, a, &b.PublicKey)
	if algo == nil {
		return
	}
	pb := algo.PlaintextBlockSize()
	nb := vfConcrete(vfInt("blocks", 0, 3))
	// whole plaintext blocks, as signAndEncrypt produces
	ct, err := algo.Encrypt(vfOpaqueBytes("pt", nb*pb))
	vfAssert(err == nil, "encrypting whole plaintext blocks fails")
	if err != nil {
		return
	}
	vfAssert(len(ct) == nb*k, "ciphertext is not one key-size block per plaintext block")
	vfReach("lengths")
}

// round trip with concrete key sizes and symbolic plaintext bytes.
func VerifH_C15_RoundTrip() {
	vfCryptoInjective(true) // collision resistance of the digest: different messages have different digests
	pi := vfConcrete(vfInt("policy", 0, len(vfAsymSpecs)-1))
	sp := vfAsymSpecs[pi]
	sizes := []int{sp.minKey, sp.maxKey, (sp.minKey + sp.maxKey) / 2}
	k := sizes[vfConcrete(vfInt("size", 0, vfParam("c15.sizes", 3)-1))]
	alice := vfRSAKey("alice", k)
	bob := vfRSAKey("bob", k)
	snd := vfAsym(sp, alice, &bob.PublicKey) // alice -> bob
	rcv := vfAsym(sp, bob, &alice.PublicKey)
	if snd == nil || rcv == nil {
		return
	}
	mb := sp.maxBlock(k)
	lens := []int{0, 1, mb - 1, mb, mb + 1, 2*mb + 1}
	n := lens[vfConcrete(vfInt("len", 0, len(lens)-1))]
	pt := vfBytes("pt", n)
	ct, err := snd.Encrypt(pt)
	vfAssert(err == nil, "Encrypt fails")
	if err != nil {
		return
	}
	// (gopcua may use smaller plaintext blocks than the primitive allows, e.g. OAEP-SHA256; only whole blocks are required)
	vfAssert(len(ct)%k == 0 && len(ct) >= (n+mb-1)/mb*k, "ciphertext is not a whole number of key-size blocks covering the plaintext")
	back, err := rcv.Decrypt(ct)
	vfAssert(err == nil, "Decrypt of a fresh ciphertext fails")
	if err != nil {
		return
	}
	vfAssert(string(back) == string(pt), "Decrypt(Encrypt(p)) differs from p")
	// the wrong private key does not decrypt
	if n > 0 {
		_, err = snd.Decrypt(ct)
		vfAssert(err != nil, "ciphertext decrypts with a key other than the recipient's")
	}
	// signatures: verify for the signed bytes and the right key only
	msg := vfBytes("msg", 4)
	sig, err := snd.Signature(msg)
	vfAssert(err == nil && len(sig) == k, "Signature fails or has the wrong length")
	if err != nil {
		return
	}
	vfAssert(rcv.VerifySignature(msg, sig) == nil, "a fresh signature does not verify")
	other := vfBytes("other", 4)
	if string(other) != string(msg) {
		vfAssert(rcv.VerifySignature(other, sig) != nil, "a signature verifies for different bytes")
	}
	vfAssert(snd.VerifySignature(msg, sig) != nil, "a signature verifies under the wrong public key")
	vfReach("roundtrip")
}
