package main

import "time"

func G(pkg, run string) []Group { return []Group{{Pkg: pkg, Run: run}} }

var specs = []*Spec{
	{
		ID: "C04", Title: "NodeID textual form round-trips and equality matches identity",
		Quick:    Tier{Groups: G("ua", "^VerifH_C04_"), Params: map[string]int{"c04.strlen": 3, "c04.opaquelen": 3, "c04.eqlen": 2, "c04.mixlen": 3}, Budget: 150 * time.Second},
		Thorough: Tier{Groups: G("ua", "^VerifH_C04_"), Params: map[string]int{"c04.strlen": 6, "c04.opaquelen": 6, "c04.eqlen": 3, "c04.mixlen": 6}, Budget: 25 * time.Minute},
		Reach: []string{"VerifH_C04_Numeric:parsed", "VerifH_C04_String:parsed", "VerifH_C04_Opaque:parsed", "VerifH_C04_GUID:parsed",
			"VerifH_C04_EqualNumeric:compared", "VerifH_C04_EqualNumericDistinct:compared", "VerifH_C04_EqualString:compared", "VerifH_C04_EqualMixed:compared", "VerifH_C04_ExpandedURI:parsed"},
		Bounds: []string{"namespace: every uint16; numeric id: every uint32; all three numeric encodings",
			"string identifiers: every byte string of length <= c04.strlen (all 256 values per byte)",
			"opaque identifiers: every byte string of length <= c04.opaquelen; GUID: 16 arbitrary bytes",
			"Equal: pairs of numeric ids (all encodings), pairs of string ids of length <= c04.eqlen, string vs numeric/opaque/GUID"},
		Outside: []string{"identifiers longer than the stated lengths", "ExpandedNodeID.String (drops URI and server index by design)", "GUID NodeIDs built from an unparsable GUID string (gid == nil)"},
		Stubs:   []string{"fmt.Sprintf: exact model for the verbs used here (%d of unsigned ints by digit extraction with a fork per digit count, %s, %0*X); strconv/strings/base64/hex executed from their SSA"},
	},
	{
		ID: "C24", Title: "Endpoint selection returns a best matching endpoint",
		Quick:    Tier{Groups: G("root", "^VerifH_C24_"), Params: map[string]int{"c24.n": 3}, Budget: 200 * time.Second},
		Thorough: Tier{Groups: G("root", "^VerifH_C24_"), Params: map[string]int{"c24.n": 4}, Budget: 40 * time.Minute},
		Reach:    []string{"VerifH_C24_Select:match", "VerifH_C24_Select:nomatch"},
		Bounds: []string{"endpoint lists of length 0..c24.n (3 quick, 4 thorough); per endpoint: security level any uint8, mode any of 0..3, policy one of {None, Basic256Sha256, Aes256_Sha256_RsaPss, empty, unknown URI}",
			"query: policy one of {\"\", None, Basic256Sha256, Aes256 URI, Aes256Sha256RsaPss, Basic128Rsa15 (absent from every list)} as short name or URI, mode any of 0..3"},
		Outside: []string{"longer lists; policy strings outside the enumerated set (string comparison is by equality, so other strings behave like the 'unknown' representative)"},
		Stubs:   []string{"errors.Errorf message text is opaque; sort.Sort/sort.Reverse executed from their SSA"},
	},
}

func init() {
	specs = append(specs,
		&Spec{
			ID: "C38", Title: "A maximal chunk body always fits the negotiated chunk size",
			Quick:    Tier{Groups: G("uasc", "^VerifH_C38_"), Budget: 150 * time.Second, Solver: "cvc5"},
			Thorough: Tier{Groups: G("uasc", "^VerifH_C38_"), Budget: 20 * time.Minute, Solver: "cvc5", Cross: "z3"},
			Reach:    []string{"VerifH_C38_MaxBodyFits:fits", "VerifH_C38_MaxBodyFits:plusone", "VerifH_C38_None:fits"},
			Bounds: []string{"chunk size: every value in [8192, 2^31-1] (one symbolic 64-bit variable)", "all five symmetric policies x {Sign, SignAndEncrypt}, and policy None / mode None",
				"body = the maximum body size computed by SetMaximumBodySize, and that size + 1 (SignAndEncrypt)", "nonces: arbitrary bytes of the policy's nonce length"},
			Outside: []string{"chunk sizes >= 2^31 (cannot be negotiated: uint32 buffer sizes converted to int) and < 8192 (below the protocol minimum)", "asymmetric (OPN) chunks: covered by C07/C15"},
			Stubs: []string{"chunk bytes are a symbolic-length byte sequence whose first bytes (headers) are tracked and whose body content is unconstrained (LSlice)",
				"HMAC: uninterpreted function (fresh output of the hash size); AES-CBC: length-preserving, Go's documented panics for non-block-multiple input"},
		},
		&Spec{
			ID: "C07", Title: "Secure channel chunking round-trips every message under every policy and mode",
			Quick: Tier{Groups: []Group{{"uasc", "^VerifH_C07_Sizes$"}, {"uasc", "^VerifH_C07_RoundTrip$"}, {"uasc", "^VerifH_C07_OPN$"}}, Params: map[string]int{"c07.chunks": 2, "c07.cs": 8192, "c07.targets": 4}, MaxSymLen: 2, Budget: 280 * time.Second, Solver: "cvc5"},
			Thorough: Tier{Groups: []Group{{"uasc", "^VerifH_C07_"}}, Params: map[string]int{"c07.chunks": 4, "c07.cs": 8192, "c07.targets": 6}, MaxSymLen: 4, Budget: 50 * time.Minute, Solver: "cvc5"},
			Reach: []string{"VerifH_C07_Sizes:sent", "VerifH_C07_Sizes:header", "VerifH_C07_Sizes:multi", "VerifH_C07_RoundTrip:delivered", "VerifH_C07_RoundTrip:multi", "VerifH_C07_OPN:opn"},
			Bounds: []string{"Sizes: chunk size every value in [8192, 2^31-1]; message body of every length that needs at most c07.chunks chunks; all five symmetric policies x {Sign, SignAndEncrypt} and None; starting sequence number any uint32",
				"OPN: an OpenSecureChannel request with symbolic nonce and lifetime from a client with key size a to a server with key size b (every pair from the policy's sizes, so mixed ExtraPaddingSize classes), read by the server's real readChunk (certificate from the header, asymmetric verifyAndDecrypt)", "RoundTrip: chunk size c07.cs (8192); body lengths {minimal, +1, max-1, max, max+1, 2*max+3} (first c07.targets of them); every body byte, both nonces and the starting sequence number symbolic; the sender's wire bytes are fed to the peer's real receive path"},
			Outside: []string{"more chunks than c07.chunks; RoundTrip at other chunk sizes", "OPN: key sizes other than {1024,2048} / {2048,3072,4096} bits, multi-chunk OPN", "real AES / HMAC / RSA (idealised: see stubs)"},
			Stubs: []string{"HMAC and SHA: uninterpreted functions by Ackermann's reduction; AES-CBC: uninterpreted E/D pair with D(E(x)) = x per (key, iv)", "TCP: in-memory stream model; Sizes uses length-abstracted bytes with tracked headers"},
		},
		&Spec{
			ID: "C14", Title: "Symmetric keys follow the specification and are direction-separated",
			Quick:    Tier{Groups: G("uapolicy", "^VerifH_C14_"), Budget: 120 * time.Second, Solver: "cvc5"},
			Thorough: Tier{Groups: G("uapolicy", "^VerifH_C14_"), Budget: 10 * time.Minute, Solver: "z3"},
			Reach:    []string{"VerifH_C14_Derivation:derived", "VerifH_C14_Separation:separated"},
			Bounds: []string{"all five symmetric policies; both nonces arbitrary byte strings of the policy's nonce length (16 or 32 symbolic bytes each)",
				"derivation compared byte for byte with a reference P_SHA written from Part 6 6.7.5 / RFC 5246 and the Part 7 key-length table, for client and server roles",
				"separation: nonces assumed different; policies whose signing key contains a whole hash block (all but Basic128Rsa15)"},
			Outside: []string{"SHA-1 / SHA-256 / HMAC themselves (uninterpreted)", "separation for Basic128Rsa15 (16 of 20 HMAC bytes: needs a stronger assumption than collision resistance)", "nonces of other lengths"},
			Stubs:   []string{"HMAC: uninterpreted function by Ackermann's reduction (Derivation); additionally injective = collision resistant (Separation)"},
		},
		&Spec{
			ID: "C15", Title: "Asymmetric crypto is correct for all lengths and enforces key size limits",
			Quick:    Tier{Groups: G("uapolicy", "^VerifH_C15_"), Params: map[string]int{"c15.sizes": 2}, Budget: 150 * time.Second, Solver: "cvc5"},
			Thorough: Tier{Groups: G("uapolicy", "^VerifH_C15_"), Params: map[string]int{"c15.sizes": 3}, Budget: 20 * time.Minute, Solver: "cvc5"},
			Reach:    []string{"VerifH_C15_KeyLimits:accepted", "VerifH_C15_KeyLimits:rejected", "VerifH_C15_Lengths:lengths", "VerifH_C15_RoundTrip:roundtrip"},
			Bounds: []string{"KeyLimits: local and remote key size every value in [1, 1024] bytes, all five asymmetric policies; accepted iff both inside the Part 7 range",
				"Lengths: key size every value in the policy's range, 0..3 whole plaintext blocks of symbolic content",
				"RoundTrip: key sizes {min, max, middle} (first c15.sizes), plaintext lengths {0, 1, maxBlock-1, maxBlock, maxBlock+1, 2*maxBlock+1} with every byte symbolic; wrong private key; signatures over 4 symbolic bytes, different bytes, wrong public key"},
			Outside: []string{"RSA mathematics: primitives are contracts (Go's documented length limits, decrypt(encrypt(p)) = p for the matching key, ideal unforgeability, collision-resistant digest)", "longer plaintexts"},
			Stubs:   []string{"rsa.EncryptOAEP/DecryptOAEP/EncryptPKCS1v15/DecryptPKCS1v15/SignPKCS1v15/VerifyPKCS1v15/SignPSS/VerifyPSS: contract stubs; (*rsa.PublicKey).Size: the size given to vfRSAKey"},
		},
		&Spec{
			ID: "C16", Title: "Security token renewal keeps the channel usable (timing kernel)",
			Quick:    Tier{Groups: G("uasc", "^VerifH_C16_"), Budget: 200 * time.Second, Solver: "cvc5", TimeoutMs: 120000},
			Thorough: Tier{Groups: G("uasc", "^VerifH_C16_"), Budget: 20 * time.Minute, Solver: "cvc5", TimeoutMs: 600000},
			Reach:    []string{"VerifH_C16_RenewalDelay:scheduled", "VerifH_C16_ExpiryDelay:scheduled"},
			Bounds: []string{"revised lifetime and client-requested lifetime: every uint32 number of milliseconds >= 1 (two symbolic variables)",
				"the real handleOpenSecureChannelResponse, scheduleRenewal and scheduleExpiration run up to their timers; timer durations and the clock are observed",
				"oracle: lifetime/2 <= renewal delay < lifetime; lifetime <= drop instant - createdAt <= 1.25*lifetime + 1ms"},
			Outside: []string{"requests issued concurrently with a renewal, server-initiated traffic during renewal (schedules): not encoded", "exactly-once renewal per token under concurrency", "lifetime 0"},
			Stubs:   []string{"time.Now: arbitrary non-decreasing instants; time.NewTimer: records its duration; crypto not involved (policy None)"},
		},
		&Spec{
			ID: "C17", Title: "Chunks secured with an expired token are rejected",
			Quick:    Tier{Groups: G("uasc", "^VerifH_C17_"), Budget: 150 * time.Second, Solver: "cvc5"},
			Thorough: Tier{Groups: G("uasc", "^VerifH_C17_"), Budget: 10 * time.Minute, Solver: "cvc5"},
			Reach:    []string{"VerifH_C17_Expiry:expired", "VerifH_C17_Expiry:middle"},
			Bounds: []string{"one channel with two tokens; channel id, both token ids (distinct) and the token lifetime symbolic; modes Sign and SignAndEncrypt (Basic256Sha256)",
				"one expiry step of the real scheduleExpiration (timer fires), real Receive/verifyAndDecrypt before and after; chunks produced by the real send path under the old and the new token"},
			Outside: []string{"more than two tokens; the time at which the timer fires (C16); other policies (the token bookkeeping does not depend on the policy)"},
			Stubs:   []string{"HMAC ideal (a tag verifies only if a key holder issued it for the same input) and collision resistant (different nonces give different keys); AES-CBC inverse pair"},
		},
		&Spec{
			ID: "C05", Title: "UACP framing delivers exactly the frames sent under any segmentation",
			Quick:    Tier{Groups: G("uacp", "^VerifH_C05_"), Params: map[string]int{"c05.len": 16, "c05.frames": 2}, Seg: true, SegCuts: 2, Budget: 200 * time.Second},
			Thorough: Tier{Groups: G("uacp", "^VerifH_C05_"), Params: map[string]int{"c05.len": 22, "c05.frames": 3}, Seg: true, SegCuts: 3, Budget: 45 * time.Minute},
			Reach: []string{"VerifH_C05_Frames:delivered", "VerifH_C05_Frames:badsize", "VerifH_C05_Frames:errframe", "VerifH_C05_Frames:truncated", "VerifH_C05_Frames:eof", "VerifH_C05_Frames:three",
				"VerifH_C05_ByteWise:delivered", "VerifH_C05_ByteWise:three"},
			Bounds: []string{"peer stream: every byte string of length 0..c05.len (16 quick / 22 thorough), i.e. every header (declared size any uint32, any type incl. ERR) and body",
				"receive buffer in {8, 12, 24}; up to c05.frames consecutive Receive calls; reference framing written from the specification in the harness",
				"segmentation: every placement of at most 2 (3) short reads anywhere in the stream, plus the one-byte-per-read pattern; io.ReadFull/ReadAtLeast executed from their SSA",
				"a frame handed out earlier is frozen: any later write to it is a violation (also serves C20)"},
			Outside: []string{"longer streams / more frames (the receive step does not depend on the offset, but that induction is not machine-checked)", "segmentations with more short reads that are not byte-wise", "receive buffers above 24 bytes with symbolic content (size arithmetic for large buffers is exercised in C06)"},
			Stubs:   []string{"(*net.TCPConn).Read: in-memory stream; each read returns between 1 and min(len(p), available) bytes; zero-length reads return 0, nil; EOF after the stream"},
		},
		&Spec{
			ID: "C06", Title: "Negotiated transport limits are honoured in both directions",
			Quick:    Tier{Groups: []Group{{"uacp", "^VerifH_C06_"}, {"uasc", "^VerifH_C06_"}}, Budget: 200 * time.Second, Solver: "cvc5", MaxSymLen: 4},
			Thorough: Tier{Groups: []Group{{"uacp", "^VerifH_C06_"}, {"uasc", "^VerifH_C06_"}}, Budget: 20 * time.Minute, Solver: "cvc5", Seg: true, SegCuts: 1, MaxSymLen: 8},
			Reach:    []string{"VerifH_C06_Negotiation:negotiated", "VerifH_C06_ConnLimits:sent", "VerifH_C06_ReceiveLimits:accepted", "VerifH_C06_ReceiveLimits:refused", "VerifH_C06_SendLimits:sent", "VerifH_C06_ChunkSizeAfterOpen:server", "VerifH_C06_ChunkSizeAfterOpen:client"},
			Bounds: []string{"Negotiation: the real client Handshake and server srvhandshake run against each other over a pipe; all eight configured limits symbolic, buffers in [8192, 2^20], message limits any uint32 incl. 0",
				"ReceiveLimits / SendLimits: policy None, messages of 1..3 chunks at chunk size 8192, MaxChunkCount and MaxMessageSize any uint32 incl. 0",
				"ChunkSizeAfterOpen: receive and send buffer symbolic in [8192, 2^20] (asymmetric allowed); server side runs the real Receive/handleOpenSecureChannelRequest on an OpenSecureChannel request and then sends a response of symbolic length (<= 3 MiB, <= 4 chunks explored); client side runs the real handleOpenSecureChannelResponse and sends; every chunk written must fit the send buffer"},
			Outside: []string{"buffer sizes below the protocol minimum 8192", "server-side send limits towards the client (the Hello's message limits are not retained by the server connection)", "messages of more than 3 chunks"},
			Stubs:   []string{"TCP: in-memory pipe between two modelled connections, the server handshake runs as a goroutine (run-to-block scheduling)"},
		},
		&Spec{
			ID: "C09", Title: "Tampered, truncated or forged secured chunks are rejected",
			Quick:    Tier{Groups: G("uasc", "^VerifH_C09_"), Params: map[string]int{"c09.policies": 2}, Budget: 240 * time.Second, Solver: "cvc5"},
			Thorough: Tier{Groups: G("uasc", "^VerifH_C09_"), Params: map[string]int{"c09.policies": 2}, Budget: 30 * time.Minute, Solver: "cvc5", Seg: true, SegCuts: 1},
			Reach:    []string{"VerifH_C09_Tamper:tampered", "VerifH_C09_Resize:resized", "VerifH_C09_WrongKeys:forged"},
			Bounds: []string{"a single-chunk message produced by the real send path (Basic256Sha256 and Basic128Rsa15, Sign and SignAndEncrypt), delivered through the real Receive",
				"Tamper: every byte position of the chunk (headers included) XOR every non-zero delta (symbolic); Resize: every new length from 12 to len+48 with the size field adjusted, appended bytes symbolic; WrongKeys: a chunk secured under keys from other nonces"},
			Outside: []string{"unforgeability itself: HMAC is an ideal MAC (a tag verifies only if a key holder issued it for the same input), AES-CBC decryption of anything but an authentic ciphertext yields unrelated bytes", "multi-chunk messages, asymmetric (OPN) chunks (C13 covers malformed OPN for panics)", "modifications of more than one byte"},
			Stubs:   []string{"ideal MAC / collision-resistant key derivation / AES-CBC inverse pair (engine crypto model)"},
		},
		&Spec{
			ID: "C10", Title: "A replayed secured chunk is never delivered twice",
			Quick:    Tier{Groups: G("uasc", "^VerifH_C10_"), Params: map[string]int{"c09.policies": 1}, Budget: 120 * time.Second, Solver: "cvc5"},
			Thorough: Tier{Groups: G("uasc", "^VerifH_C10_"), Params: map[string]int{"c09.policies": 2}, Budget: 10 * time.Minute, Solver: "cvc5"},
			Reach:    []string{},
			Bounds:   []string{"two single-chunk messages from the real send path; histories: chunk 1 replayed verbatim right after itself, and chunk 1 re-sent after chunk 2; Sign and SignAndEncrypt"},
			Outside:  []string{"longer histories, multi-chunk messages"},
			Stubs:    []string{"ideal crypto model as in C09"},
		},
		&Spec{
			ID: "C12", Title: "Chunk streams from any conforming peer are reassembled correctly",
			Quick:    Tier{Groups: G("uasc", "^VerifH_C12_"), Budget: 200 * time.Second, Solver: "cvc5"},
			Thorough: Tier{Groups: G("uasc", "^VerifH_C12_"), Budget: 20 * time.Minute, Solver: "cvc5", Seg: true, SegCuts: 1},
			Reach:    []string{"VerifH_C12_Reassembly:reassembled"},
			Bounds: []string{"one message cut into 2 or 3 chunks at cut points from {0, 1, 4, 18, len-1, len} (empty chunks included); starting sequence number any uint32, +1 per chunk with the Part 6 wrap to any value < 1024 including 0; request ids symbolic",
				"optionally one intermediate chunk of another request interleaved, or that other request aborted (abort must be reported for it alone)", "unsecured channel (reassembly does not depend on the policy); reference sender written from Part 6 in the harness"},
			Outside: []string{"more than 3 chunks / more than two interleaved requests", "secured modes (C07 covers the secured round trip)"},
			Stubs:   []string{"TCP stream model"},
		},
		&Spec{
			ID: "C13", Title: "The channel receive path survives any peer byte stream",
			Quick:    Tier{Groups: G("uasc", "^VerifH_C13_"), Params: map[string]int{"c13.len": 40, "c13.lenNone": 8, "c13.lenOPN": 14}, Budget: 240 * time.Second, Solver: "cvc5"},
			Thorough: Tier{Groups: G("uasc", "^VerifH_C13_"), Params: map[string]int{"c13.len": 64, "c13.lenNone": 10, "c13.lenOPN": 16}, Budget: 40 * time.Minute, Solver: "cvc5"},
			Reach:    []string{"VerifH_C13_Garbage:survived", "VerifH_C13_OPN:survived"},
			Bounds: []string{"Garbage: one frame MSG/OPN/CLO with symbolic chunk type, channel id and 0..c13.len symbolic payload bytes (0..c13.lenNone unsecured, 0..c13.lenOPN for OPN), on client and server channels, None / Sign / SignAndEncrypt, with and without an opening instance: no panic",
				"OPN: asymmetric header with policy in {None, Basic256Sha256, unknown}, certificate in {valid, garbage, absent}, thumbprint, payload lengths {0,7,8,255,256,300}: no panic",
				"Buffered: 1..4 intermediate chunks with symbolic request ids against MaxChunkCount 2: total buffered chunks must stay within the limit"},
			Outside: []string{"liveness (never blocks forever): needs fairness assumptions, not encoded", "longer payloads; decoding of unsecured bodies beyond a few bytes is C02's subject", "streams of more than one frame (except Buffered)"},
			Stubs:   []string{"x509.ParseCertificates: known certificates resolve to their key, anything else is malformed; ideal crypto model"},
		},
	)
}

func findSpec(id string) *Spec {
	for _, s := range specs {
		if s.ID == id {
			return s
		}
	}
	return nil
}
