package main

import "time"

func G(pkg, run string) []Group { return []Group{{Pkg: pkg, Run: run}} }

var specs = []*Spec{
	{
		ID: "C04", Title: "NodeID textual form round-trips and equality matches identity",
		Quick:    Tier{Groups: G("ua", "^VerifH_C04_"), Params: map[string]int{"c04.strlen": 3, "c04.opaquelen": 3, "c04.eqlen": 2, "c04.mixlen": 3}, Budget: 150 * time.Second},
		Thorough: Tier{Groups: G("ua", "^VerifH_C04_"), Params: map[string]int{"c04.strlen": 6, "c04.opaquelen": 6, "c04.eqlen": 3, "c04.mixlen": 6}, Budget: 25 * time.Minute},
		Reach: []string{"VerifH_C04_Numeric:parsed", "VerifH_C04_String:parsed", "VerifH_C04_Opaque:parsed", "VerifH_C04_GUID:parsed",
			"VerifH_C04_EqualNumeric:compared", "VerifH_C04_EqualNumericDistinct:compared", "VerifH_C04_EqualString:compared", "VerifH_C04_EqualMixed:compared", "VerifH_C04_ExpandedURI:parsed"},
		Bounds: []string{"namespace: every uint16; numeric id: every uint32; all three numeric encodings",
			"string identifiers: every byte string of length <= c04.strlen (all 256 values per byte)",
			"opaque identifiers: every byte string of length <= c04.opaquelen; GUID: 16 arbitrary bytes",
			"Equal: pairs of numeric ids (all encodings), pairs of string ids of length <= c04.eqlen, string vs numeric/opaque/GUID"},
		Outside: []string{"identifiers longer than the stated lengths", "ExpandedNodeID.String (drops URI and server index by design)", "GUID NodeIDs built from an unparsable GUID string (gid == nil)"},
		Stubs:   []string{"fmt.Sprintf: exact model for the verbs used here (%d of unsigned ints by digit extraction with a fork per digit count, %s, %0*X); strconv/strings/base64/hex executed from their SSA"},
	},
	{
		ID: "C24", Title: "Endpoint selection returns a best matching endpoint",
		Quick:    Tier{Groups: G("root", "^VerifH_C24_"), Params: map[string]int{"c24.n": 3}, Budget: 200 * time.Second},
		Thorough: Tier{Groups: G("root", "^VerifH_C24_"), Params: map[string]int{"c24.n": 4}, Budget: 40 * time.Minute},
		Reach:    []string{"VerifH_C24_Select:match", "VerifH_C24_Select:nomatch"},
		Bounds: []string{"endpoint lists of length 0..c24.n (3 quick, 4 thorough); per endpoint: security level any uint8, mode any of 0..3, policy one of {None, Basic256Sha256, Aes256_Sha256_RsaPss, empty, unknown URI}",
			"query: policy one of {\"\", None, Basic256Sha256, Aes256 URI, Aes256Sha256RsaPss, Basic128Rsa15 (absent from every list)} as short name or URI, mode any of 0..3"},
		Outside: []string{"longer lists; policy strings outside the enumerated set (string comparison is by equality, so other strings behave like the 'unknown' representative)"},
		Stubs:   []string{"errors.Errorf message text is opaque; sort.Sort/sort.Reverse executed from their SSA"},
	},
}

func findSpec(id string) *Spec {
	for _, s := range specs {
		if s.ID == id {
			return s
		}
	}
	return nil
}
