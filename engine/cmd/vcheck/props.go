package main

import (
	"encoding/json"
	"fmt"
	"os"
	"path/filepath"
	"regexp"
	"runtime"
	"sort"
	"strconv"
	"strings"
	"time"

	"golang.org/x/tools/go/ssa"

	"verif/engine/gsx"
)

// Group selects harnesses of one package.
type Group struct {
	Pkg string // harness dir ("root" = module root)
	Run string // regexp over harness function names
}

type Tier struct {
	Groups    []Group
	Params    map[string]int
	Unwind    int
	MaxSymLen int
	Preempt   int
	Seg       bool
	SegCuts   int
	MapPerm   bool
	TimerRace bool
	Budget    time.Duration // wall budget for exploration
	MaxSteps  int
	TimeoutMs int
	Solver    string
	Cross     string // second solver: the whole tier is run again with it and the verdicts must agree
}

type Spec struct {
	ID          string
	Title       string
	Quick       Tier
	Thorough    Tier
	Reach       []string // "Harness:tag" that must be reached (vacuity guard)
	Bounds      []string
	Outside     []string
	Assumptions []string
	Stubs       []string
}

type KnownFinding struct {
	Status   string `json:"status"` // known | fixed
	Property string `json:"property"`
	Harness  string `json:"harness"` // regexp
	Kind     string `json:"kind"`
	Site     string `json:"site"`
	Msg      string `json:"msg,omitempty"` // regexp over the violation message (assertion text / panic text)
	What     string `json:"what"`
	Commit   string `json:"commit,omitempty"`
}

func loadKnown() ([]KnownFinding, error) {
	b, err := os.ReadFile(filepath.Join(verifDir, "known_findings.json"))
	if os.IsNotExist(err) {
		return nil, nil
	}
	if err != nil {
		return nil, err
	}
	var k []KnownFinding
	return k, json.Unmarshal(b, &k)
}

func (k *KnownFinding) matches(prop string, v *gsx.Violation) bool {
	if k.Status != "known" || k.Property != prop {
		return false
	}
	if k.Kind != "" && k.Kind != v.Kind {
		return false
	}
	if k.Site != "" && k.Site != v.Site {
		return false
	}
	if k.Harness != "" {
		if ok, _ := regexp.MatchString("^(?:"+k.Harness+")$", v.Harness); !ok {
			return false
		}
	}
	if k.Msg != "" {
		if ok, _ := regexp.MatchString(k.Msg, v.Msg); !ok {
			return false
		}
	}
	return true
}

type Evidence struct {
	PropertyID  string                 `json:"property_id"`
	Tier        string                 `json:"tier"`
	Seed        int                    `json:"seed"`
	Level       string                 `json:"level"`
	Coverage    map[string]interface{} `json:"coverage"`
	Assumptions []string               `json:"assumptions"`
	WallS       float64                `json:"wall_s"`
	Violations  int                    `json:"violations"`
	Verdict     string                 `json:"verdict"`
}

func propMain(id string, args []string) int {
	tier := os.Getenv("VERIF_TIER")
	for i := 0; i < len(args); i++ {
		if args[i] == "--tier" && i+1 < len(args) {
			tier = args[i+1]
			i++
		}
	}
	if tier == "" {
		tier = "quick"
	}
	seed, _ := strconv.Atoi(os.Getenv("VERIF_SEED"))
	spec := findSpec(id)
	if spec == nil {
		fmt.Fprintf(os.Stderr, "unknown property %s\n", id)
		return 2
	}
	t0 := time.Now()
	T := spec.Quick
	if tier == "thorough" {
		T = spec.Thorough
	}
	known, err := loadKnown()
	if err != nil {
		fmt.Fprintln(os.Stderr, "known_findings.json:", err)
		return 2
	}
	ov, rels, err := buildOverlay()
	if err != nil {
		fmt.Fprintln(os.Stderr, err)
		return 2
	}
	p, err := loadProgram(rels, ov)
	if err != nil {
		fmt.Fprintln(os.Stderr, "INCONCLUSIVE: cannot load /repo:", err)
		writeEvidence(spec, tier, seed, nil, nil, time.Since(t0), 0, "inconclusive: load failed: "+err.Error(), nil)
		return 2
	}
	p.Segmentation = T.Seg
	p.SegCuts = T.SegCuts
	p.MapOrderPerm = T.MapPerm
	p.TimerRace = T.TimerRace
	if T.MaxSymLen > 0 {
		p.MaxSymLen = T.MaxSymLen
	}
	p.Params = T.Params
	var hs []*ssa.Function
	pkgOf := map[string]string{}
	for _, g := range T.Groups {
		fs := findHarnesses(p, relPkg(g.Pkg), regexp.MustCompile(g.Run))
		for _, f := range fs {
			pkgOf[f.Name()] = g.Pkg
		}
		hs = append(hs, fs...)
	}
	if len(hs) == 0 {
		fmt.Fprintln(os.Stderr, "INCONCLUSIVE: no harness found")
		return 2
	}
	opt := gsx.Options{Workers: runtime.NumCPU(), Solver: T.Solver, Unwind: T.Unwind, Preempt: T.Preempt, MaxSteps: T.MaxSteps, TimeoutMs: T.TimeoutMs}
	if T.Budget > 0 {
		opt.Deadline = time.Now().Add(T.Budget)
	}
	rep := p.Explore(hs, opt)

	// ---- verdict ----
	exit := 0
	var lines []string
	var incon []string
	nviol := 0
	knownSeen := map[string]bool{}
	var replays []map[string]interface{}
	nReplayed := 0
	var names []string
	for n := range rep.Harness {
		names = append(names, n)
	}
	sort.Strings(names)
	if rep.TimedOut {
		incon = append(incon, "exploration budget exhausted before all paths were covered")
	}
	for _, e := range rep.SolverErrors {
		incon = append(incon, "solver error: "+e)
	}
	for _, n := range names {
		hr := rep.Harness[n]
		for _, s := range hr.Incon {
			incon = append(incon, n+": "+s)
		}
		for _, v := range hr.Violations {
			var kf *KnownFinding
			for i := range known {
				if known[i].matches(spec.ID, v) {
					kf = &known[i]
					break
				}
			}
			if kf != nil {
				key := kf.Property + "|" + kf.Site + "|" + kf.Kind + "|" + kf.What
				if !knownSeen[key] {
					knownSeen[key] = true
					lines = append(lines, fmt.Sprintf("KNOWN-FINDING: property=%s %s", spec.ID, kf.What))
				}
				continue
			}
			nviol++
			if nReplayed >= 4 {
				continue
			}
			nReplayed++
			rdir := filepath.Join(outDir(), "replays", spec.ID)
			os.MkdirAll(rdir, 0o755)
			rpath := filepath.Join(rdir, fmt.Sprintf("%s_%d.json", v.Harness, nReplayed))
			rf := &ReplayFile{Property: spec.ID, Harness: v.Harness, Pkg: pkgOf[v.Harness], Kind: v.Kind, Msg: v.Msg, Site: v.Site, Pos: v.Pos,
				Stack: v.Stack, Nd: v.Nd, PathCond: v.PathCond, Params: T.Params, Repeat: repeatFor(v), Delays: v.Delays}
			writeReplayFile(rpath, rf)
			scratch, _ := os.MkdirTemp("", "vcheck-replay-")
			to := 60 * time.Second
			ok, out, rerr := runSchedule(relPkg(pkgOf[v.Harness]), v, rpath, scratch, to)
			os.RemoveAll(scratch)
			rf.Output = tail(out, 25)
			rec := map[string]interface{}{"harness": v.Harness, "kind": v.Kind, "msg": v.Msg, "site": v.Site, "reproduced": ok, "replay": rpath}
			if rerr != nil {
				rec["error"] = rerr.Error()
			}
			replays = append(replays, rec)
			switch {
			case rerr != nil:
				incon = append(incon, fmt.Sprintf("%s: replay infrastructure failed for %s at %s: %v", n, v.Kind, v.Site, rerr))
				rf.Note = "replay failed to build/run"
			case ok:
				rf.Note = "reproduced against the native build"
				lines = append(lines, fmt.Sprintf("VIOLATION property=%s replay=%s", spec.ID, rpath))
				lines = append(lines, fmt.Sprintf("  harness=%s kind=%s site=%s: %s", v.Harness, v.Kind, v.Site, v.Msg))
				exit = 1
			default:
				rf.Note = "solver counterexample did NOT reproduce natively (spurious candidate)"
				incon = append(incon, fmt.Sprintf("%s: counterexample for %s at %s (%s) did not reproduce natively", n, v.Kind, v.Site, v.Msg))
			}
			writeReplayFile(rpath, rf)
		}
	}
	// vacuity guard
	for _, r := range spec.Reach {
		parts := strings.SplitN(r, ":", 2)
		hr := rep.Harness[parts[0]]
		if hr == nil {
			// harness may be thorough-only
			continue
		}
		if !hr.Reached[parts[1]] {
			incon = append(incon, "vacuity guard: "+r+" was not reached on any path")
		}
	}
	incon = dedupStr(incon)
	if exit == 0 && len(incon) > 0 {
		exit = 2
	}
	verdict := "holds within the stated bounds"
	if len(knownSeen) > 0 {
		verdict = "no violation other than the listed known findings"
	}
	switch exit {
	case 1:
		verdict = "violation"
	case 2:
		verdict = "inconclusive"
	}
	for _, l := range lines {
		fmt.Println(l)
	}
	for _, s := range incon {
		fmt.Println("INCONCLUSIVE:", s)
	}
	writeEvidence(spec, tier, seed, rep, &T, time.Since(t0), nviol, verdict, map[string]interface{}{
		"known_findings_seen": keysOf(knownSeen), "replays": replays, "inconclusive": incon, "load_s": p.LoadTime.Seconds()})
	fmt.Printf("%s %s: %s (paths=%d queries=%d solver=%.1fs wall=%.1fs)\n", spec.ID, tier, verdict, totalPaths(rep), rep.Queries, rep.SolverTime.Seconds(), time.Since(t0).Seconds())
	return exit
}

func backendName(T *Tier) string {
	k := "z3"
	if T != nil && T.Solver != "" {
		k = T.Solver
	}
	switch k {
	case "z3":
		return "z3 4.8.12 (-in, push/pop, one persistent process per worker)"
	case "cvc5":
		return "cvc5 1.0.x (--incremental, bit-blasting, one persistent process per worker)"
	case "cvc5-int":
		return "cvc5 1.0.x (--incremental --solve-bv-as-int=sum)"
	case "z3-new":
		return "z3 5.1.0 (-in)"
	}
	return k
}

func keysOf(m map[string]bool) []string {
	out := []string{}
	for k := range m {
		out = append(out, k)
	}
	sort.Strings(out)
	return out
}

func dedupStr(s []string) []string {
	seen := map[string]bool{}
	var out []string
	for _, x := range s {
		if !seen[x] {
			seen[x] = true
			out = append(out, x)
		}
	}
	return out
}

func totalPaths(rep *gsx.Report) int {
	n := 0
	for _, hr := range rep.Harness {
		for _, c := range hr.Paths {
			n += c
		}
	}
	return n
}

func writeEvidence(spec *Spec, tier string, seed int, rep *gsx.Report, T *Tier, wall time.Duration, nviol int, verdict string, extra map[string]interface{}) {
	cov := map[string]interface{}{}
	ev := Evidence{PropertyID: spec.ID, Tier: tier, Seed: seed, Level: "model_checking", Coverage: cov, WallS: wall.Seconds(), Violations: nviol, Verdict: verdict}
	ev.Assumptions = append([]string{"64-bit platform (int = 64 bits)", "go/ssa (x/tools v0.29.0) is the semantics analysed; gc compiler agrees with it",
		"SMT solver verdicts (z3 4.8.12 / cvc5 1.0) are trusted; any solver error or unknown makes the run inconclusive"}, spec.Assumptions...)
	states, trans := 0, int64(0)
	samples := []interface{}{}
	perH := map[string]interface{}{}
	validated := 0
	if rep != nil {
		var names []string
		for n := range rep.Harness {
			names = append(names, n)
		}
		sort.Strings(names)
		for _, n := range names {
			hr := rep.Harness[n]
			np := 0
			for _, c := range hr.Paths {
				np += c
			}
			states += np
			trans += hr.Decisions
			perH[n] = map[string]interface{}{"paths_by_end": hr.Paths, "decisions": hr.Decisions, "reached": keys(hr.Reached), "max_nd_values": hr.NdMax, "violations_distinct_sites": len(hr.Violations)}
			for i, s := range hr.Samples {
				if i < 2 {
					samples = append(samples, map[string]interface{}{"harness": n, "path": s})
				}
			}
		}
		type fc struct {
			n string
			c int
		}
		var fcs []fc
		for n, c := range rep.Funcs {
			fcs = append(fcs, fc{n, c})
		}
		sort.Slice(fcs, func(i, j int) bool { return fcs[i].c > fcs[j].c || (fcs[i].c == fcs[j].c && fcs[i].n < fcs[j].n) })
		var repoFuncs, otherFuncs []string
		for _, f := range fcs {
			if strings.Contains(f.n, "gopcua/opcua") && !strings.Contains(f.n, "VerifH_") && !strings.Contains(f.n, ".vf") {
				repoFuncs = append(repoFuncs, fmt.Sprintf("%s ×%d", f.n, f.c))
			} else {
				otherFuncs = append(otherFuncs, f.n)
			}
		}
		if len(repoFuncs) > 120 {
			repoFuncs = append(repoFuncs[:120], fmt.Sprintf("… and %d more", len(repoFuncs)-120))
		}
		if len(otherFuncs) > 60 {
			otherFuncs = append(otherFuncs[:60], fmt.Sprintf("… and %d more", len(otherFuncs)-60))
		}
		cov["functions_encoded_repo"] = repoFuncs
		cov["functions_encoded_stdlib_and_harness"] = otherFuncs
		cov["queries"] = map[string]interface{}{"total": rep.Queries, "sat": rep.Sat, "unsat": rep.Unsat, "unknown": rep.Unknown, "backend": backendName(T)}
		cov["solver_time_s"] = rep.SolverTime.Seconds()
		cov["instructions_executed"] = rep.Instrs
		cov["exhaustive"] = !rep.TimedOut && verdict != "inconclusive"
	}
	if extra != nil {
		if r, ok := extra["replays"].([]map[string]interface{}); ok {
			validated += len(r)
		}
		for k, v := range extra {
			cov[k] = v
		}
	}
	if len(samples) == 0 {
		samples = append(samples, "no path completed")
	}
	if states == 0 {
		states = 1
	}
	if trans == 0 {
		trans = 1
	}
	cov["states"] = states
	cov["transitions"] = trans
	cov["traces_validated_against_impl"] = validated
	cov["samples"] = samples
	cov["per_harness"] = perH
	cov["states_meaning"] = "completed symbolic paths (each is a set of inputs characterised by its path condition)"
	cov["transitions_meaning"] = "solver-decided decision points along those paths"
	cov["bounds"] = spec.Bounds
	cov["outside_claim"] = spec.Outside
	cov["stubs"] = spec.Stubs
	if T != nil {
		cov["params"] = T.Params
		cov["engine_bounds"] = map[string]interface{}{"unwind": T.Unwind, "max_symbolic_alloc_len": T.MaxSymLen, "preemption_bound": T.Preempt, "segmentation_symbolic": T.Seg, "map_order_permutations": T.MapPerm}
	}
	cov["encoding"] = "regenerated from /repo working tree on this run via go/packages overlay + go/ssa; no cached summaries"
	os.MkdirAll(filepath.Join(outDir(), "evidence"), 0o755)
	b, _ := json.MarshalIndent(ev, "", " ")
	os.WriteFile(filepath.Join(outDir(), "evidence", spec.ID+".json"), b, 0o644)
}

// outDir: where evidence and replay files go: /verif, or $VERIF_OUT when a scratch copy of the
// repository is checked (VERIF_REPO).
func outDir() string {
	if os.Getenv("VERIF_REPO") != "" {
		if d := os.Getenv("VERIF_OUT"); d != "" {
			return d
		}
		return filepath.Join(os.TempDir(), "vcheck-scratch-out")
	}
	return verifDir
}
