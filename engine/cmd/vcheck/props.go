package main

import "fmt"

func propMain(id string, args []string) int {
	fmt.Println("not yet")
	return 2
}
