package main

import (
	"context"
	"encoding/json"
	"fmt"
	"os"
	"os/exec"
	"path/filepath"
	"regexp"
	"sort"
	"strings"
	"time"

	"verif/engine/gsx"
)

// ReplayFile is what a VIOLATION line points to.
type ReplayFile struct {
	Property string            `json:"property"`
	Harness  string            `json:"harness"`
	Pkg      string            `json:"pkg"` // harness dir
	Kind     string            `json:"kind"`
	Msg      string            `json:"msg"`
	Site     string            `json:"site"`
	Pos      string            `json:"pos"`
	Stack    []string          `json:"stack,omitempty"`
	Params   map[string]int    `json:"params,omitempty"`
	Nd       []gsx.NdVal       `json:"nd"`
	PathCond []string          `json:"path_condition,omitempty"`
	Repeat   int               `json:"repeat,omitempty"` // schedule-dependent: run the harness this many times natively
	Delays   []gsx.DelaySite   `json:"delays,omitempty"` // schedule-dependent: hold goroutines back at these operations to follow the explored schedule
	Note     string            `json:"note,omitempty"`
	Output   string            `json:"native_output,omitempty"`
}

var harnessFn = regexp.MustCompile(`(?m)^func (VerifH_\w+)\(\)`)

// delayInstrument returns src with a delay point inserted in front of each listed line: the
// Occ-th time control reaches the line, the goroutine sleeps for Ms milliseconds.
func delayInstrument(src []byte, sites []gsx.DelaySite, tag string) []byte {
	// insertion offsets: right after a function body's brace, or at the start of a line
	lineStart := []int{0}
	for i, b := range src {
		if b == '\n' {
			lineStart = append(lineStart, i+1)
		}
	}
	type ins struct {
		off  int
		text string
	}
	var all []ins
	for i, d := range sites {
		call := fmt.Sprintf("vfDelayPoint%s(%d, %d, %d)", tag, i, d.Occ, d.Ms)
		switch {
		case d.Off > 0 && d.Off <= len(src):
			all = append(all, ins{d.Off, " " + call + "; "})
		case d.Line >= 1 && d.Line <= len(lineStart):
			all = append(all, ins{lineStart[d.Line-1], call + "\n"})
		}
	}
	sort.Slice(all, func(i, j int) bool { return all[i].off > all[j].off })
	out := string(src)
	for _, in := range all {
		out = out[:in.off] + in.text + out[in.off:]
	}
	lines := strings.Split(out, "\n")
	for i, l := range lines {
		if pkgClause.MatchString(l) {
			imp := fmt.Sprintf("import vftime%s \"time\"; import vfatomic%s \"sync/atomic\"", tag, tag)
			lines[i] = l + "; " + imp
			break
		}
	}
	lines = append(lines, fmt.Sprintf("var vfDelayCnt%s [%d]int32", tag, len(sites)+1),
		fmt.Sprintf("func vfDelayPoint%s(i int, occ int32, ms int) {\n\tif vfatomic%s.AddInt32(&vfDelayCnt%s[i], 1) == occ {\n\t\tvftime%s.Sleep(vftime%s.Duration(ms) * vftime%s.Millisecond)\n\t}\n}", tag, tag, tag, tag, tag, tag))
	return []byte(strings.Join(lines, "\n"))
}

// materialize writes the overlay files under dir and returns the overlay json path.
func materialize(dir string) (string, error) {
	return materializeDelays(dir, nil)
}

func materializeDelays(dir string, delays []gsx.DelaySite) (string, error) {
	ov, _, err := buildOverlay()
	if err != nil {
		return "", err
	}
	repl := map[string]string{}
	byFile := map[string][]gsx.DelaySite{}
	for _, d := range delays {
		byFile[d.File] = append(byFile[d.File], d)
	}
	nf := 0
	for file, sites := range byFile {
		if src, ok := ov[file]; ok {
			// a harness file: instrument the overlay content itself
			ov[file] = delayInstrument(src, sites, fmt.Sprintf("%d", nf))
			nf++
			continue
		}
		src, err := os.ReadFile(file)
		if err != nil {
			continue
		}
		f := filepath.Join(dir, "ov", fmt.Sprintf("delay%d_%s", nf, filepath.Base(file)))
		if err := os.MkdirAll(filepath.Dir(f), 0o755); err != nil {
			return "", err
		}
		if err := os.WriteFile(f, delayInstrument(src, sites, fmt.Sprintf("%d", nf)), 0o644); err != nil {
			return "", err
		}
		repl[file] = f
		nf++
	}
	byPkg := map[string][]string{} // repo dir -> harness names
	pkgName := map[string]string{}
	var targets []string
	for t := range ov {
		targets = append(targets, t)
	}
	sort.Strings(targets)
	for i, t := range targets {
		f := filepath.Join(dir, "ov", fmt.Sprintf("%03d_%s", i, filepath.Base(t)))
		if err := os.MkdirAll(filepath.Dir(f), 0o755); err != nil {
			return "", err
		}
		if err := os.WriteFile(f, ov[t], 0o644); err != nil {
			return "", err
		}
		repl[t] = f
		d := filepath.Dir(t)
		for _, m := range harnessFn.FindAllSubmatch(ov[t], -1) {
			byPkg[d] = append(byPkg[d], string(m[1]))
		}
		if m := pkgClause.FindSubmatch(ov[t]); m != nil {
			pkgName[d] = string(m[1])
		}
	}
	for d, names := range byPkg {
		sort.Strings(names)
		var sb strings.Builder
		fmt.Fprintf(&sb, "package %s\n\nimport (\n\t\"os\"\n\t\"testing\"\n\t\"time\"\n)\n\nfunc TestVerifReplay(t *testing.T) {\n\th := map[string]func(){\n", pkgName[d])
		for _, n := range names {
			fmt.Fprintf(&sb, "\t\t%q: %s,\n", n, n)
		}
		sb.WriteString("\t}\n\tf := h[os.Getenv(\"VERIF_HARNESS\")]\n\tif f == nil {\n\t\tt.Fatal(\"VERIF-REPLAY: unknown harness\")\n\t}\n\tdefer func() {\n\t\tif r := recover(); r != nil {\n\t\t\tif _, ok := r.(vfAssumeFailed); ok {\n\t\t\t\tt.Skip(\"VERIF-REPLAY: assumption failed (spurious)\")\n\t\t\t}\n\t\t\tpanic(r)\n\t\t}\n\t}()\n\tn := 0\n\tfor _, c := range os.Getenv(\"VERIF_REPEAT\") {\n\t\tn = n*10 + int(c-'0')\n\t}\n\tif n < 1 {\n\t\tn = 1\n\t}\n\tstart := time.Now()\n\tfor i := 0; i < n; i++ {\n\t\tif i > 0 && time.Since(start) > 30*time.Second {\n\t\t\tbreak // repetitions must never run into the hang limit\n\t\t}\n\t\tvfReset()\n\t\tf()\n\t}\n}\n")
		f := filepath.Join(dir, "ov", "test_"+strings.ReplaceAll(strings.TrimPrefix(d, repoDir), "/", "_")+"_test.go")
		if err := os.WriteFile(f, []byte(sb.String()), 0o644); err != nil {
			return "", err
		}
		repl[filepath.Join(d, "zz_verif_replay_test.go")] = f
	}
	b, _ := json.MarshalIndent(map[string]interface{}{"Replace": repl}, "", " ")
	p := filepath.Join(dir, "overlay.json")
	return p, os.WriteFile(p, b, 0o644)
}

// runNative runs the harness natively with the nd assignment in ndPath.
func runNative(rel, harness, ndPath, scratch string, timeout time.Duration) (reproduced bool, out string, err error) {
	return runNativeN(rel, harness, ndPath, scratch, timeout, 1)
}

func runNativeN(rel, harness, ndPath, scratch string, timeout time.Duration, repeat int) (reproduced bool, out string, err error) {
	return runNativeDelays(rel, harness, ndPath, scratch, timeout, repeat, nil)
}

// runSchedule replays a violation natively. A schedule-dependent one is first run once with
// delay points that make the native scheduler follow the explored interleaving (the native
// failure has to be the predicted one), then repeatedly without them.
func runSchedule(rel string, v *gsx.Violation, ndPath, scratch string, timeout time.Duration) (bool, string, error) {
	if len(v.Delays) > 0 {
		// each delay outlasts everything that was held back before it (explored order)
		ds := append([]gsx.DelaySite{}, v.Delays...)
		sum := 0
		for i := range ds {
			ds[i].Ms += sum
			sum = ds[i].Ms
			if sum > 15000 {
				ds = ds[:i]
				break
			}
		}
		ok, out, err := runNativeDelays(rel, v.Harness, ndPath, filepath.Join(scratch, "d"), timeout, 1, ds)
		if err == nil && ok && (v.Kind != "assert" || strings.Contains(out, v.Msg)) {
			return true, out + "\n(reproduced with delay points following the explored schedule)", nil
		}
	}
	return runNativeN(rel, v.Harness, ndPath, scratch, timeout, repeatFor(v))
}

func runNativeDelays(rel, harness, ndPath, scratch string, timeout time.Duration, repeat int, delays []gsx.DelaySite) (reproduced bool, out string, err error) {
	ovPath, err := materializeDelays(scratch, delays)
	if err != nil {
		return false, "", err
	}
	ctx, cancel := context.WithTimeout(context.Background(), timeout+90*time.Second)
	defer cancel()
	pkg := "./" + rel
	if rel == "" {
		pkg = "."
	}
	cmd := exec.CommandContext(ctx, "go", "test", "-vet=off", "-count=1", "-timeout", fmt.Sprintf("%ds", int(timeout.Seconds())),
		"-overlay", ovPath, "-run", "^TestVerifReplay$", pkg)
	cmd.Dir = repoDir
	cmd.Env = append(os.Environ(), "GOFLAGS=-mod=mod", "GOPROXY=off", "GOSUMDB=off", "GOTOOLCHAIN=local",
		"VERIF_REPLAY="+ndPath, "VERIF_HARNESS="+harness, "GOCACHE="+goCache(), fmt.Sprintf("VERIF_REPEAT=%d", repeat))
	b, runErr := cmd.CombinedOutput()
	out = string(b)
	switch {
	case strings.Contains(out, "VERIF-REPLAY-MISMATCH"), strings.Contains(out, "VERIF-REPLAY:"):
		return false, out, nil
	case strings.Contains(out, "VERIF-ASSERT"), strings.Contains(out, "panic:"), strings.Contains(out, "fatal error:"):
		return true, out, nil
	case strings.Contains(out, "test timed out"), ctx.Err() != nil:
		return true, out + "\n(native run did not terminate within the limit)", nil
	case strings.Contains(out, "[build failed]"), strings.Contains(out, "[setup failed]"):
		return false, out, fmt.Errorf("replay build failed")
	}
	if runErr != nil && !strings.Contains(out, "ok  \t") {
		return true, out, nil
	}
	return false, out, nil
}

func goCache() string {
	if c := os.Getenv("GOCACHE"); c != "" {
		return c
	}
	return filepath.Join(os.Getenv("HOME"), ".cache", "go-build")
}

func writeReplayFile(path string, rf *ReplayFile) error {
	if err := os.MkdirAll(filepath.Dir(path), 0o755); err != nil {
		return err
	}
	b, _ := json.MarshalIndent(rf, "", " ")
	return os.WriteFile(path, b, 0o644)
}

func replayViolation(rel string, v *gsx.Violation, scratch string, timeout time.Duration) (bool, string, error) {
	rf := &ReplayFile{Harness: v.Harness, Kind: v.Kind, Msg: v.Msg, Nd: v.Nd}
	nd := filepath.Join(scratch, "nd.json")
	if err := writeReplayFile(nd, rf); err != nil {
		return false, "", err
	}
	return runSchedule(rel, v, nd, scratch, timeout)
}

// repeatFor: a violation that needs context switches chosen by the explorer cannot be forced
// on the native scheduler; the native replay runs the harness repeatedly instead.
func repeatFor(v *gsx.Violation) int {
	if v.Preempts > 0 || len(v.Delays) > 0 {
		return 600
	}
	return 1
}

func replayMain(path string) int {
	b, err := os.ReadFile(path)
	if err != nil {
		fmt.Fprintln(os.Stderr, err)
		return 2
	}
	var rf ReplayFile
	if err := json.Unmarshal(b, &rf); err != nil {
		fmt.Fprintln(os.Stderr, err)
		return 2
	}
	scratch, _ := os.MkdirTemp("", "vcheck-replay-")
	defer os.RemoveAll(scratch)
	rep := rf.Repeat
	if rep < 1 {
		rep = 1
	}
	ok, out, err := runSchedule(relPkg(rf.Pkg), &gsx.Violation{Harness: rf.Harness, Kind: rf.Kind, Msg: rf.Msg, Delays: rf.Delays, Preempts: rep - 1}, path, scratch, 120*time.Second)
	fmt.Println(tail(out, 40))
	if err != nil {
		fmt.Fprintln(os.Stderr, err)
		return 2
	}
	if ok {
		fmt.Printf("REPRODUCED property=%s harness=%s kind=%s\n", rf.Property, rf.Harness, rf.Kind)
		return 1
	}
	fmt.Println("not reproduced")
	return 0
}
