// vcheck: solver-based checks of gopcua/opcua properties via the gsx symbolic executor.
package main

import (
	"flag"
	"fmt"
	"os"
	"path/filepath"
	"regexp"
	"runtime"
	"sort"
	"strconv"
	"strings"
	"time"

	"golang.org/x/tools/go/ssa"

	"verif/engine/gsx"
)

const (
	verifDir = "/verif"
	modPath  = "github.com/gopcua/opcua"
)

// repoDir is /repo. VERIF_REPO points the tool at a scratch copy instead; it is used only by
// tools/seedcheck.sh to try seeded changes without touching /repo, and redirects evidence and
// replay output to $VERIF_OUT so that the committed files are never written from a copy.
var repoDir = func() string {
	if d := os.Getenv("VERIF_REPO"); d != "" {
		return d
	}
	return "/repo"
}()

// harnessPkgs maps harness directory names to repository-relative package dirs.
func relPkg(dir string) string {
	if dir == "root" {
		return ""
	}
	return dir
}

func importPath(rel string) string {
	if rel == "" {
		return modPath
	}
	return modPath + "/" + rel
}

var pkgClause = regexp.MustCompile(`(?m)^package\s+(\w+)`)

// buildOverlay maps harness files into the repository tree (nothing is written to /repo).
func buildOverlay() (map[string][]byte, []string, error) {
	ov := map[string][]byte{}
	var rels []string
	tmpl, err := os.ReadFile(filepath.Join(verifDir, "harness/_common/nd.go.tmpl"))
	if err != nil {
		return nil, nil, err
	}
	err = filepath.Walk(filepath.Join(verifDir, "harness"), func(p string, info os.FileInfo, err error) error {
		if err != nil || info.IsDir() || !strings.HasSuffix(p, ".go") {
			return err
		}
		dir, _ := filepath.Rel(filepath.Join(verifDir, "harness"), filepath.Dir(p))
		if strings.HasPrefix(dir, "_") {
			return nil
		}
		rel := relPkg(dir)
		src, err := os.ReadFile(p)
		if err != nil {
			return err
		}
		target := filepath.Join(repoDir, rel, "zz_verif_"+filepath.Base(p))
		ov[target] = src
		nd := filepath.Join(repoDir, rel, "zz_verif_nd.go")
		if _, ok := ov[nd]; !ok {
			m := pkgClause.FindSubmatch(src)
			if m == nil {
				return fmt.Errorf("%s: no package clause", p)
			}
			ov[nd] = []byte(strings.Replace(string(tmpl), "PKGNAME", string(m[1]), 1))
			rels = append(rels, rel)
		}
		return nil
	})
	sort.Strings(rels)
	return ov, rels, err
}

func loadProgram(rels []string, ov map[string][]byte) (*gsx.Program, error) {
	var pats []string
	for _, r := range rels {
		pats = append(pats, importPath(r))
	}
	return gsx.Load(repoDir, ov, pats...)
}

func findHarnesses(p *gsx.Program, rel string, re *regexp.Regexp) []*ssa.Function {
	pk := p.FindPkg(importPath(rel))
	if pk == nil {
		return nil
	}
	var out []*ssa.Function
	for name, mem := range pk.Members {
		if f, ok := mem.(*ssa.Function); ok && strings.HasPrefix(name, "VerifH_") && re.MatchString(name) {
			out = append(out, f)
		}
	}
	sort.Slice(out, func(i, j int) bool { return out[i].Name() < out[j].Name() })
	return out
}

func main() {
	if len(os.Args) < 2 {
		fmt.Fprintln(os.Stderr, "usage: vcheck <property-id> [--tier quick|thorough] | vcheck dev ... | vcheck --replay <path>")
		os.Exit(2)
	}
	switch os.Args[1] {
	case "dev":
		os.Exit(devMain(os.Args[2:]))
	case "--replay", "replay":
		if len(os.Args) < 3 {
			fmt.Fprintln(os.Stderr, "usage: vcheck --replay <path>")
			os.Exit(2)
		}
		os.Exit(replayMain(os.Args[2]))
	default:
		os.Exit(propMain(os.Args[1], os.Args[2:]))
	}
}

func devMain(args []string) int {
	fs := flag.NewFlagSet("dev", flag.ExitOnError)
	pkg := fs.String("pkg", "ua", "harness dir (root for the module root)")
	run := fs.String("run", ".", "regexp over harness names")
	workers := fs.Int("j", runtime.NumCPU(), "workers")
	solver := fs.String("solver", "z3", "solver")
	verbose := fs.Bool("v", false, "verbose")
	unwind := fs.Int("unwind", 0, "loop bound")
	maxPaths := fs.Int("paths", 0, "max paths")
	seg := fs.Bool("seg", false, "symbolic TCP segmentation")
	segcuts := fs.Int("segcuts", 0, "max short reads per connection (0 = unlimited)")
	replay := fs.Bool("replay", false, "replay violations natively")
	slog := fs.String("solverlog", "", "solver log prefix")
	timeout := fs.Int("timeout", 30000, "solver timeout ms")
	preempt := fs.Int("preempt", 0, "preemption bound")
	perm := fs.Bool("maporder", false, "explore map iteration orders")
	forks := fs.Bool("forks", false, "profile fork sites")
	timerrace := fs.Bool("timerrace", false, "timers may fire while other select cases are ready")
	params := fs.String("params", "", "k=v,k=v harness parameters")
	symlen := fs.Int("symlen", 0, "max symbolic allocation length")
	budget := fs.Duration("budget", 0, "wall budget")
	fs.Parse(args)

	ov, rels, err := buildOverlay()
	if err != nil {
		fmt.Fprintln(os.Stderr, err)
		return 2
	}
	t0 := time.Now()
	p, err := loadProgram(rels, ov)
	if err != nil {
		fmt.Fprintln(os.Stderr, err)
		return 2
	}
	fmt.Fprintf(os.Stderr, "loaded in %v\n", time.Since(t0))
	p.Segmentation = *seg
	p.SegCuts = *segcuts
	p.MapOrderPerm = *perm
	p.TimerRace = *timerrace
	if *symlen > 0 {
		p.MaxSymLen = *symlen
	}
	if *params != "" {
		p.Params = map[string]int{}
		for _, kv := range strings.Split(*params, ",") {
			if i := strings.Index(kv, "="); i > 0 {
				n, _ := strconv.Atoi(kv[i+1:])
				p.Params[kv[:i]] = n
			}
		}
	}
	hs := findHarnesses(p, relPkg(*pkg), regexp.MustCompile(*run))
	if len(hs) == 0 {
		fmt.Fprintln(os.Stderr, "no harness matches")
		return 2
	}
	rep := p.Explore(hs, gsx.Options{Workers: *workers, Solver: *solver, Verbose: *verbose, Unwind: *unwind, MaxPaths: *maxPaths, SolverLog: *slog, TimeoutMs: *timeout, Preempt: *preempt, ProfileForks: *forks, Deadline: deadlineOf(*budget)})
	printReport(rep)
	if *forks {
		type kv struct {
			k string
			v int
		}
		var l []kv
		for k, v := range rep.ForkSites {
			l = append(l, kv{k, v})
		}
		sort.Slice(l, func(i, j int) bool { return l[i].v > l[j].v })
		for i, e := range l {
			if i >= 25 {
				break
			}
			fmt.Printf("  FORKS %8d %s\n", e.v, e.k)
		}
	}
	if *replay {
		for _, hr := range rep.Harness {
			for i, v := range hr.Violations {
				dir := filepath.Join(os.TempDir(), fmt.Sprintf("vcheck-dev-replay-%d-%s-%d", os.Getpid(), hr.Name, i))
				ok, out, err := replayViolation(relPkg(*pkg), v, dir, 60*time.Second)
				fmt.Printf("replay %s %s: reproduced=%v err=%v delays=%v\n%s\n", hr.Name, v.Kind, ok, err, v.Delays, tail(out, 12))
				os.RemoveAll(dir)
			}
		}
	}
	return 0
}

func deadlineOf(d time.Duration) time.Time {
	if d <= 0 {
		return time.Time{}
	}
	return time.Now().Add(d)
}

func tail(s string, n int) string {
	lines := strings.Split(strings.TrimSpace(s), "\n")
	if len(lines) > n {
		lines = lines[len(lines)-n:]
	}
	return strings.Join(lines, "\n")
}

func printReport(rep *gsx.Report) {
	var names []string
	for n := range rep.Harness {
		names = append(names, n)
	}
	sort.Strings(names)
	for _, n := range names {
		hr := rep.Harness[n]
		fmt.Printf("== %s paths=%v reached=%v\n", n, hr.Paths, keys(hr.Reached))
		for _, v := range hr.Violations {
			fmt.Printf("   VIOL %s: %s\n      site=%s pos=%s definite=%v\n      nd=%s\n", v.Kind, v.Msg, v.Site, v.Pos, v.Definite, ndString(v.Nd))
			if os.Getenv("GSX_PC") != "" {
				for _, pc := range v.PathCond {
					fmt.Printf("      pc: %s\n", pc)
				}
			}
		}
		for _, s := range hr.Incon {
			fmt.Printf("   INCON %s\n", s)
		}
		for _, o := range hr.Obs {
			fmt.Printf("   OBS %s\n", o)
		}
	}
	fmt.Printf("queries=%d (sat %d unsat %d unknown %d) solver=%v wall=%v instrs=%d timedout=%v\n", rep.Queries, rep.Sat, rep.Unsat, rep.Unknown, rep.SolverTime, rep.Wall, rep.Instrs, rep.TimedOut)
	for _, e := range rep.SolverErrors {
		fmt.Printf("   SOLVER-ERROR %s\n", e)
	}
}

func ndString(nd []gsx.NdVal) string {
	var sb strings.Builder
	for i, r := range nd {
		if i > 0 {
			sb.WriteString(" ")
		}
		if r.Kind == "bytes" {
			fmt.Fprintf(&sb, "%s=", r.Tag)
			for _, v := range r.Vals {
				fmt.Fprintf(&sb, "%02x", v)
			}
		} else if len(r.Vals) == 1 {
			fmt.Fprintf(&sb, "%s=%d", r.Tag, int64(r.Vals[0]))
		}
		if sb.Len() > 600 {
			sb.WriteString(" …")
			break
		}
	}
	return sb.String()
}

func keys(m map[string]bool) []string {
	var out []string
	for k := range m {
		out = append(out, k)
	}
	sort.Strings(out)
	return out
}
