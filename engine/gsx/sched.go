package gsx

import (
	"fmt"
	"go/ast"
	"go/token"
	"go/types"
	"strings"

	"golang.org/x/tools/go/ssa"
)

// G is an interpreted goroutine, backed by a host goroutine; only one runs at a time.
type G struct {
	id       int
	fn       Value
	args     []Value
	call     *ssa.CallCommon
	started  bool
	done     bool
	resume   chan struct{}
	waitOn   func() bool
	what     string
	draining bool
	frame    *frame
	depth    int
	syncFile string // last synchronisation operation reached (repository source position)
	syncLine int
	syncOcc  int
	pendingDelay int // to be applied at the next synchronisation operation reached
	spawnSeq     int  // value of the machine's synchronisation counter when the goroutine was created
	firstCall    bool // has not yet entered a source-level function
}

type syncState struct {
	locked   bool
	readers  int
	owner    *G
	count    int   // waitgroup
	onceDone bool
	condGen  int
	condWait []*condWaiter // goroutines parked in Cond.Wait, oldest first
}

type condWaiter struct{ woken bool }

type simTimer struct {
	ch       *Chan
	fired    bool
	stopped  bool
	periodic bool
	d        *Term
}

func (m *Machine) sync(p *Value) *syncState {
	if p == nil {
		m.goPanic("nil pointer dereference (sync primitive)")
	}
	s := m.syncs[p]
	if s == nil {
		s = &syncState{}
		m.syncs[p] = s
	}
	return s
}

func (m *Machine) spawn(fn Value, args []Value, call *ssa.CallCommon) {
	m.nextGID++
	g := &G{id: m.nextGID, fn: fn, args: args, call: call, resume: make(chan struct{}), spawnSeq: m.syncSeq, firstCall: true}
	m.gs = append(m.gs, g)
}

func (g *G) runnable() bool {
	if g.done {
		return false
	}
	return g.waitOn == nil || g.waitOn()
}

func (m *Machine) pickRunnable(exclude *G) *G {
	var drain *G
	for _, g := range m.gs {
		if g == exclude || g.done {
			continue
		}
		if g.draining {
			drain = g
			continue
		}
		if g.runnable() {
			return g
		}
	}
	return drain
}

func (m *Machine) runnableOthers() []*G {
	var out []*G
	for _, g := range m.gs {
		if g != m.cur && !g.done && !g.draining && g.runnable() {
			out = append(out, g)
		}
	}
	return out
}

// transfer hands the baton to next and parks the current goroutine (unless it is finished).
func (m *Machine) transfer(next *G, park bool) {
	prev := m.cur
	prev.frame = m.curFrame
	prev.depth = m.callDepth
	m.cur = next
	if !next.started {
		next.started = true
		go m.gMain(next)
	} else {
		next.resume <- struct{}{}
	}
	if park {
		<-prev.resume
		if m.aborting {
			panic(goAbort{})
		}
		m.curFrame = prev.frame
		m.callDepth = prev.depth
	}
}

func (m *Machine) gMain(g *G) {
	defer func() {
		r := recover()
		g.done = true
		if r != nil {
			if _, ok := r.(goAbort); ok {
				m.gwg.Done()
				return
			}
			// a path end (or engine bug) inside a spawned goroutine: hand to main
			m.pendingEnd = r
			m.aborting = true
			m.gwg.Done()
			m.gs[0].resume <- struct{}{}
			return
		}
		m.gwg.Done()
		// finished normally: pass the baton
		next := m.pickRunnable(g)
		if next == nil {
			if m.fireEvent() {
				next = m.pickRunnable(g)
			}
		}
		if next == nil {
			// everything else is blocked; main must be blocked too
			m.pendingEnd = m.deadlockEnd()
			m.aborting = true
			m.gs[0].resume <- struct{}{}
			return
		}
		m.cur = next
		if !next.started {
			next.started = true
			m.gwg.Add(1)
			go m.gMain(next)
		} else {
			next.resume <- struct{}{}
		}
	}()
	m.curFrame = nil
	m.callDepth = 0
	m.callValue(nil, g.fn, g.args, g.call)
}

func (m *Machine) deadlockEnd() interface{} {
	msg := "all goroutines are blocked:"
	for _, g := range m.gs {
		if !g.done {
			where := ""
			fr := g.frame
			if g == m.cur {
				fr = m.curFrame
			}
			for f := fr; f != nil; f = f.caller {
				if f.fn.Pkg != nil && strings.HasPrefix(f.fn.Pkg.Pkg.Path(), m.P.RepoPrefix) {
					where = " in " + f.fn.Name()
					break
				}
			}
			msg += fmt.Sprintf(" g%d[%s%s]", g.id, g.what, where)
		}
	}
	func() {
		defer func() { recover() }()
		m.report("deadlock", msg, true)
	}()
	return pathEnd{"deadlock", msg}
}

// block parks the current goroutine until ready() holds.
func (m *Machine) block(ready func() bool, what string) {
	for !ready() {
		g := m.cur
		g.waitOn = ready
		g.what = what
		next := m.pickRunnable(g)
		if next == nil && m.fireEvent() {
			if ready() {
				break
			}
			next = m.pickRunnable(g)
		}
		if next == nil {
			panic(m.deadlockEnd())
		}
		if !next.started {
			m.gwg.Add(1)
		}
		m.transfer(next, true)
	}
	m.cur.waitOn = nil
	m.cur.what = ""
}

// schedPoint is a potential preemption point (bounded by PreemptBound).
func (m *Machine) schedPoint() {
	m.noteSync()
	if m.preemptOff || m.PreemptBound <= m.preempts {
		return
	}
	others := m.runnableOthers()
	if len(others) == 0 {
		return
	}
	k := m.choose(len(others)+1, "preempt")
	if k == 0 {
		return
	}
	m.preempts++
	m.addDelay(m.cur, 150)
	next := others[k-1]
	if !next.started {
		m.gwg.Add(1)
	}
	m.cur.waitOn = nil
	m.transfer(next, true)
}

// noteSync records the repository source position of the synchronisation operation the
// current goroutine is about to perform, and how many times that position was reached.
func (m *Machine) noteSync() {
	if m.cur == nil {
		return
	}
	m.syncSeq++
	pos := m.curPos
	for f := m.curFrame; ; f = f.caller {
		if pos.IsValid() {
			p := m.P.Fset.Position(pos)
			if strings.HasPrefix(p.Filename, m.P.RepoDir+"/") && !strings.Contains(p.Filename, "zz_verif_nd.go") {
				if m.posCount == nil {
					m.posCount = map[string]int{}
				}
				k := fmt.Sprintf("%s:%d", p.Filename, p.Line)
				m.posCount[k]++
				m.cur.syncFile, m.cur.syncLine, m.cur.syncOcc = p.Filename, p.Line, m.posCount[k]
				if m.cur.pendingDelay > 0 {
					m.addDelay(m.cur, m.cur.pendingDelay)
					m.cur.pendingDelay = 0
				}
				return
			}
		}
		if f == nil {
			break
		}
		pos = f.callPos
	}
	m.cur.syncFile, m.cur.syncLine, m.cur.syncOcc = "", 0, 0
}

// noteEntry counts entries of repository / harness functions, and — when a spawned goroutine
// enters its first such function only after others went on synchronising — records that the
// native replay has to hold that goroutine back at the top of that function.
func (m *Machine) noteEntry(fn *ssa.Function) {
	if m.cur == nil || fn.Syntax() == nil {
		return
	}
	var lb token.Pos
	switch n := fn.Syntax().(type) {
	case *ast.FuncDecl:
		if n.Body != nil {
			lb = n.Body.Lbrace
		}
	case *ast.FuncLit:
		lb = n.Body.Lbrace
	}
	if !lb.IsValid() {
		return
	}
	if m.entryCount == nil {
		m.entryCount = map[*ssa.Function]int{}
	}
	m.entryCount[fn]++
	g := m.cur
	if !g.firstCall || g.id == 0 {
		return
	}
	p := m.P.Fset.Position(lb)
	if !strings.HasPrefix(p.Filename, m.P.RepoDir+"/") || strings.Contains(p.Filename, "zz_verif_nd.go") {
		return
	}
	g.firstCall = false
	if m.syncSeq > g.spawnSeq {
		m.delays = append(m.delays, DelaySite{File: p.Filename, Line: p.Line, Off: p.Offset + 1, Occ: m.entryCount[fn], Ms: 150})
	}
}

func (m *Machine) addDelay(g *G, ms int) {
	if g == nil || g.syncFile == "" {
		return
	}
	for i, d := range m.delays {
		if d.File == g.syncFile && d.Line == g.syncLine && d.Occ == g.syncOcc {
			if ms > d.Ms {
				m.delays[i].Ms = ms
			}
			return
		}
	}
	m.delays = append(m.delays, DelaySite{File: g.syncFile, Line: g.syncLine, Occ: g.syncOcc, Ms: ms})
}

// drain lets other goroutines run until they block (called when main finishes).
func (m *Machine) drain() {
	main := m.cur
	for {
		next := m.pickRunnable(main)
		if next == nil || next == main {
			break
		}
		main.draining = true
		if !next.started {
			m.gwg.Add(1)
		}
		m.transfer(next, true)
		main.draining = false
	}
}

// killAll unwinds every parked goroutine at the end of a path.
func (m *Machine) killAll() {
	m.aborting = true
	for _, g := range m.gs[1:] {
		if g.started && !g.done {
			g.resume <- struct{}{}
		}
	}
	m.gwg.Wait()
	m.aborting = false
}

// fireEvent fires one pending timer (environment event). Returns false if none.
func (m *Machine) fireEvent() bool {
	if m.cur != nil && m.gs[0].draining {
		return false
	}
	for _, t := range m.timers {
		if !t.fired && !t.stopped {
			if m.horizonNs > 0 && t.d != nil && t.d.IsConst() && int64(t.d.C) > m.horizonNs {
				continue // beyond the time horizon of the scenario
			}
			m.fireTimer(t)
			return true
		}
	}
	return false
}

func (m *Machine) fireTimer(t *simTimer) {
	m.touchChan(t.ch)
	if len(t.ch.Buf) < 1 {
		t.ch.Buf = append(t.ch.Buf, m.timeNow())
	}
	if !t.periodic {
		t.fired = true
	}
}

func (m *Machine) newTimer(d *Term, periodic bool) *simTimer {
	m.nextGID++
	t := &simTimer{ch: &Chan{Cap: 1, ID: m.nextGID}, d: d, periodic: periodic}
	t.ch.Timer = t
	m.timers = append(m.timers, t)
	return t
}

// ---- channels ----

func (m *Machine) chanSend(cv, v Value) {
	ch, _ := cv.(*Chan)
	m.schedPoint()
	if ch == nil {
		m.block(func() bool { return false }, "send on nil channel")
	}
	if ch.Closed {
		m.goPanic("send on closed channel")
	}
	if ch.Cap > 0 {
		m.block(func() bool { return ch.Closed || len(ch.Buf) < ch.Cap }, fmt.Sprintf("chan send (full, cap %d)", ch.Cap))
		if ch.Closed {
			m.goPanic("send on closed channel")
		}
		m.touchChan(ch)
		ch.Buf = append(append([]Value{}, ch.Buf...), copyVal(v))
		ch.lastFile, ch.lastLine, ch.lastOcc = m.cur.syncFile, m.cur.syncLine, m.cur.syncOcc
		return
	}
	w := &chanWaiter{g: m.cur, v: copyVal(v)}
	m.touchChan(ch)
	ch.sendq = append(append([]*chanWaiter{}, ch.sendq...), w)
	m.block(func() bool { return w.done || ch.Closed }, "chan send (unbuffered)")
	if !w.done {
		m.goPanic("send on closed channel")
	}
}

func (m *Machine) recvReady(ch *Chan) bool {
	return len(ch.Buf) > 0 || len(ch.sendq) > 0 || ch.Closed
}

func (m *Machine) takeFrom(ch *Chan) (Value, bool) {
	m.touchChan(ch)
	if len(ch.Buf) > 0 {
		v := ch.Buf[0]
		ch.Buf = append([]Value{}, ch.Buf[1:]...)
		return v, true
	}
	if len(ch.sendq) > 0 {
		w := ch.sendq[0]
		ch.sendq = append([]*chanWaiter{}, ch.sendq[1:]...)
		w.done = true
		return w.v, true
	}
	return m.zero(ch.ET), false
}

func (m *Machine) chanRecv(cv Value) (Value, bool) {
	ch, _ := cv.(*Chan)
	m.schedPoint()
	if ch == nil {
		m.block(func() bool { return false }, "receive on nil channel")
	}
	if !m.recvReady(ch) && ch.Timer != nil && !ch.Timer.stopped && !ch.Timer.fired {
		m.fireTimer(ch.Timer)
	}
	m.touchChan(ch)
	ch.recvWaiting++
	m.block(func() bool { return m.recvReady(ch) }, "chan receive")
	ch.recvWaiting--
	return m.takeFrom(ch)
}

func (m *Machine) chanClose(cv Value) {
	ch, _ := cv.(*Chan)
	if ch == nil {
		m.goPanic("close of nil channel")
	}
	if ch.Closed {
		m.goPanic("close of closed channel")
	}
	m.touchChan(ch)
	ch.Closed = true
}

func (m *Machine) selectOp(fr *frame, in *ssa.Select) Value {
	c := m.ctx
	m.schedPoint()
	type st struct {
		ch  *Chan
		dir types.ChanDir
		v   Value
	}
	states := make([]st, len(in.States))
	for i, s := range in.States {
		ch, _ := fr.get(m, s.Chan).(*Chan)
		states[i] = st{ch: ch, dir: s.Dir}
		if s.Dir == types.SendOnly {
			states[i].v = fr.get(m, s.Send)
		}
	}
	ready := func() []int {
		var r []int
		for i, s := range states {
			if s.ch == nil {
				continue
			}
			if s.dir == types.RecvOnly {
				if m.recvReady(s.ch) {
					r = append(r, i)
				}
			} else {
				if s.ch.Closed || len(s.ch.Buf) < s.ch.Cap || (s.ch.Cap == 0 && s.ch.recvWaiting > 0) {
					r = append(r, i)
				}
			}
		}
		return r
	}
	// timers among the cases may fire nondeterministically (time passes)
	var timerCases []int
	for i, s := range states {
		if s.ch != nil && s.dir == types.RecvOnly && s.ch.Timer != nil && !s.ch.Timer.fired && !s.ch.Timer.stopped && len(s.ch.Buf) == 0 {
			timerCases = append(timerCases, i)
		}
	}
	rd := ready()
	pick := -1
	if len(rd) == 0 && !in.Blocking {
		pick = -1
	} else {
		if len(rd) == 0 && (len(timerCases) == 0 || !m.timerRace) {
			// nothing ready: let the other goroutines run; time passes (a timer fires) only
			// when nobody can run any more
			m.block(func() bool { return len(ready()) > 0 }, "select")
			rd = ready()
			timerCases = nil
		}
		nalt := len(rd)
		if m.timerRace || len(rd) == 0 {
			nalt += len(timerCases)
		}
		k := m.choose(nalt, "select")
		if k < len(rd) {
			pick = rd[k]
		} else {
			pick = timerCases[k-len(rd)]
			if m.timerRace {
				// natively: everybody who could have run before the timer has to be held back past it
				ms := 1500
				if d := states[pick].ch.Timer.d; d != nil && d.IsConst() && d.C/1000000 < 5000 {
					ms = int(d.C/1000000) + 400
				}
				for _, g := range m.runnableOthers() {
					if !g.started || g.waitOn != nil {
						// not yet running, or inside an operation that has become ready: natively it
						// is past that point already; hold it back at its next operation
						if ms > g.pendingDelay {
							g.pendingDelay = ms
						}
					} else {
						m.addDelay(g, ms)
					}
				}
				// ... and whoever made another case ready
				for _, i := range rd {
					s := states[i]
					if s.dir != types.RecvOnly || s.ch == nil {
						continue
					}
					if len(s.ch.Buf) > 0 {
						m.addDelay(&G{syncFile: s.ch.lastFile, syncLine: s.ch.lastLine, syncOcc: s.ch.lastOcc}, ms)
					} else if len(s.ch.sendq) > 0 {
						m.addDelay(s.ch.sendq[0].g, ms)
					}
				}
			}
			m.fireTimer(states[pick].ch.Timer)
		}
	}
	// result tuple: index, recvOk, then one value per receive state
	res := Tuple{c.BV(uint64(int64(pick)), 64), c.False}
	for i, s := range in.States {
		if s.Dir != types.RecvOnly {
			continue
		}
		et := s.Chan.Type().Underlying().(*types.Chan).Elem()
		if i == pick {
			v, ok := m.takeFrom(states[i].ch)
			res[1] = c.Bool(ok)
			res = append(res, v)
		} else {
			res = append(res, m.zero(et))
		}
	}
	if pick >= 0 && states[pick].dir == types.SendOnly {
		ch := states[pick].ch
		if ch.Closed {
			m.goPanic("send on closed channel")
		}
		m.touchChan(ch)
		if ch.Cap > 0 {
			ch.Buf = append(append([]Value{}, ch.Buf...), copyVal(states[pick].v))
		} else {
			w := &chanWaiter{g: m.cur, v: copyVal(states[pick].v), done: false}
			ch.sendq = append(append([]*chanWaiter{}, ch.sendq...), w)
		}
	}
	return res
}
