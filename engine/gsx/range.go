package gsx

import "math/bits"

// A light unsigned-interval oracle used to decide obvious comparisons without
// a solver call. It is sound (only answers when the interval argument is
// conclusive); everything else goes to the solver.

type ival struct{ lo, hi uint64 }

func (m *Machine) refreshFacts() {
	if m.factsLen == len(m.pc) && m.facts != nil {
		return
	}
	if m.facts == nil || m.factsLen > len(m.pc) {
		m.facts = map[*Term]ival{}
		m.factsLen = 0
	}
	for _, p := range m.pc[m.factsLen:] {
		m.addFact(p, true)
	}
	m.factsLen = len(m.pc)
}

func (m *Machine) narrow(t *Term, lo, hi uint64) {
	if t.IsConst() || t.S != SBV {
		return
	}
	cur, ok := m.facts[t]
	if !ok {
		cur = ival{0, mask(t.W)}
	}
	if lo > cur.lo {
		cur.lo = lo
	}
	if hi < cur.hi {
		cur.hi = hi
	}
	m.facts[t] = cur
}

func (m *Machine) addFact(p *Term, pos bool) {
	switch p.Op {
	case ONot:
		m.addFact(p.Args[0], !pos)
	case OAnd:
		if pos {
			m.addFact(p.Args[0], true)
			m.addFact(p.Args[1], true)
		}
	case OOr:
		if !pos {
			m.addFact(p.Args[0], false)
			m.addFact(p.Args[1], false)
		}
	case OEq:
		a, b := p.Args[0], p.Args[1]
		if pos && a.S == SBV {
			if b.IsConst() {
				m.narrow(a, b.C, b.C)
			} else if a.IsConst() {
				m.narrow(b, a.C, a.C)
			} else {
				// propagate known ranges across equalities
				if r, ok := m.rangeOf(b, 0); ok {
					m.narrow(a, r.lo, r.hi)
				}
				if r, ok := m.rangeOf(a, 0); ok {
					m.narrow(b, r.lo, r.hi)
				}
			}
		}
	case OULt, OULe:
		a, b := p.Args[0], p.Args[1]
		strict := p.Op == OULt
		if !pos {
			// not (a < b)  ==  b <= a ; not (a <= b) == b < a
			a, b = b, a
			strict = !strict
		}
		if b.IsConst() {
			hi := b.C
			if strict {
				if hi == 0 {
					return
				}
				hi--
			}
			m.narrow(a, 0, hi)
		} else if a.IsConst() {
			lo := a.C
			if strict {
				if lo == mask(a.W) {
					return
				}
				lo++
			}
			m.narrow(b, lo, mask(b.W))
		}
	case OSLt, OSLe:
		a, b := p.Args[0], p.Args[1]
		strict := p.Op == OSLt
		if !pos {
			a, b = b, a
			strict = !strict
		}
		top := uint64(1) << (a.W - 1)
		// 0 <= a (signed) style facts: const <= a with const non-negative
		if a.IsConst() && a.C < top {
			// a <(=) b signed, a >= 0  => b in [a(+1), top-1] unsigned
			lo := a.C
			if strict {
				lo++
			}
			m.narrow(b, lo, top-1)
		} else if b.IsConst() && b.C < top {
			// a <(=) b with b >= 0: only useful if a is known non-negative
			if r, ok := m.rangeOf(a, 0); ok && r.hi < top {
				hi := b.C
				if strict {
					if hi == 0 {
						return
					}
					hi--
				}
				m.narrow(a, 0, hi)
			}
		}
	}
}

func (m *Machine) rangeOf(t *Term, d int) (ival, bool) {
	if t.S != SBV {
		return ival{}, false
	}
	full := ival{0, mask(t.W)}
	if d > 24 {
		return full, false
	}
	r, known := m.structRange(t, d)
	if f, ok := m.facts[t]; ok {
		if !known {
			r = full
		}
		if f.lo > r.lo {
			r.lo = f.lo
		}
		if f.hi < r.hi {
			r.hi = f.hi
		}
		known = true
	}
	return r, known
}

func (m *Machine) structRange(t *Term, d int) (ival, bool) {
	mw := mask(t.W)
	switch t.Op {
	case OConst:
		return ival{t.C, t.C}, true
	case OZExt:
		if r, ok := m.rangeOf(t.Args[0], d+1); ok {
			return r, true
		}
		return ival{0, mask(t.Args[0].W)}, true
	case OExtract:
		if t.C&0xff == 0 {
			if r, ok := m.rangeOf(t.Args[0], d+1); ok && r.hi <= mw {
				return r, true
			}
		}
	case OAdd:
		a, ok1 := m.rangeOf(t.Args[0], d+1)
		b, ok2 := m.rangeOf(t.Args[1], d+1)
		if ok1 && ok2 {
			hi, c1 := bits.Add64(a.hi, b.hi, 0)
			if c1 == 0 && hi <= mw {
				return ival{a.lo + b.lo, hi}, true
			}
			// x + (-k): subtraction of a constant
			if t.Args[1].IsConst() {
				k := (-t.Args[1].C) & mw
				if a.lo >= k {
					return ival{a.lo - k, a.hi - k}, true
				}
			}
		}
	case OSub:
		a, ok1 := m.rangeOf(t.Args[0], d+1)
		b, ok2 := m.rangeOf(t.Args[1], d+1)
		if ok1 && ok2 && a.lo >= b.hi {
			return ival{a.lo - b.hi, a.hi - b.lo}, true
		}
	case OMul:
		a, ok1 := m.rangeOf(t.Args[0], d+1)
		b, ok2 := m.rangeOf(t.Args[1], d+1)
		if ok1 && ok2 {
			h, l := bits.Mul64(a.hi, b.hi)
			if h == 0 && l <= mw {
				return ival{a.lo * b.lo, l}, true
			}
		}
	case OUDiv:
		if t.Args[1].IsConst() && t.Args[1].C > 0 {
			if a, ok := m.rangeOf(t.Args[0], d+1); ok {
				return ival{a.lo / t.Args[1].C, a.hi / t.Args[1].C}, true
			}
			return ival{0, mw / t.Args[1].C}, true
		}
	case OURem:
		if t.Args[1].IsConst() && t.Args[1].C > 0 {
			return ival{0, t.Args[1].C - 1}, true
		}
	case OBAnd:
		if t.Args[1].IsConst() {
			return ival{0, t.Args[1].C}, true
		}
		if a, ok := m.rangeOf(t.Args[0], d+1); ok {
			return ival{0, a.hi}, true
		}
	case OLShr:
		if t.Args[1].IsConst() && t.Args[1].C < 64 {
			if a, ok := m.rangeOf(t.Args[0], d+1); ok {
				return ival{a.lo >> t.Args[1].C, a.hi >> t.Args[1].C}, true
			}
			return ival{0, mw >> t.Args[1].C}, true
		}
	case OIte:
		a, ok1 := m.rangeOf(t.Args[1], d+1)
		b, ok2 := m.rangeOf(t.Args[2], d+1)
		if ok1 && ok2 {
			if b.lo < a.lo {
				a.lo = b.lo
			}
			if b.hi > a.hi {
				a.hi = b.hi
			}
			return a, true
		}
	}
	return ival{0, mw}, false
}

// decide tries to settle a Bool term by interval reasoning.
func (m *Machine) decide(cond *Term) (val bool, ok bool) {
	if cond.IsConst() {
		return cond.C == 1, true
	}
	m.refreshFacts()
	switch cond.Op {
	case ONot:
		v, ok := m.decide(cond.Args[0])
		return !v, ok
	case OAnd:
		v1, ok1 := m.decide(cond.Args[0])
		v2, ok2 := m.decide(cond.Args[1])
		if (ok1 && !v1) || (ok2 && !v2) {
			return false, true
		}
		if ok1 && ok2 {
			return true, true
		}
	case OOr:
		v1, ok1 := m.decide(cond.Args[0])
		v2, ok2 := m.decide(cond.Args[1])
		if (ok1 && v1) || (ok2 && v2) {
			return true, true
		}
		if ok1 && ok2 {
			return false, true
		}
	case OEq:
		a, b := cond.Args[0], cond.Args[1]
		if a.S != SBV {
			return false, false
		}
		ra, ok1 := m.rangeOf(a, 0)
		rb, ok2 := m.rangeOf(b, 0)
		if ok1 && ok2 {
			if ra.hi < rb.lo || rb.hi < ra.lo {
				return false, true
			}
			if ra.lo == ra.hi && rb.lo == rb.hi && ra.lo == rb.lo {
				return true, true
			}
		}
	case OULt, OULe, OSLt, OSLe:
		a, b := cond.Args[0], cond.Args[1]
		ra, ok1 := m.rangeOf(a, 0)
		rb, ok2 := m.rangeOf(b, 0)
		if !ok1 || !ok2 {
			// overflow test idiom: (x + y) < x
			return false, false
		}
		if cond.Op == OSLt || cond.Op == OSLe {
			top := uint64(1) << (a.W - 1)
			if ra.hi >= top || rb.hi >= top {
				return false, false
			}
		}
		switch cond.Op {
		case OULt, OSLt:
			if ra.hi < rb.lo {
				return true, true
			}
			if ra.lo >= rb.hi {
				return false, true
			}
			// (x + y) < x  with no overflow possible
			if a.Op == OAdd && (a.Args[0] == b || a.Args[1] == b) {
				x, okx := m.rangeOf(a.Args[0], 0)
				y, oky := m.rangeOf(a.Args[1], 0)
				if okx && oky {
					if s, c := bits.Add64(x.hi, y.hi, 0); c == 0 && s <= mask(a.W) {
						return false, true
					}
				}
			}
		default:
			if ra.hi <= rb.lo {
				return true, true
			}
			if ra.lo > rb.hi {
				return false, true
			}
		}
	}
	return false, false
}

// Rebuild re-creates t with new arguments through the simplifying constructors.
func (c *Ctx) Rebuild(t *Term, a []*Term) *Term {
	switch t.Op {
	case OConst, OVar:
		return t
	case ONot:
		return c.Not(a[0])
	case OAnd:
		return c.And(a[0], a[1])
	case OOr:
		return c.Or(a[0], a[1])
	case OEq:
		return c.Eq(a[0], a[1])
	case OIte:
		return c.Ite(a[0], a[1], a[2])
	case OAdd, OSub, OMul, OUDiv, OURem, OSDiv, OSRem, OBAnd, OBOr, OBXor, OShl, OLShr, OAShr:
		return c.Bin(t.Op, a[0], a[1])
	case ONeg:
		return c.Neg(a[0])
	case OBNot:
		return c.BNot(a[0])
	case OULt, OULe, OSLt, OSLe:
		return c.Cmp(t.Op, a[0], a[1])
	case OZExt:
		return c.ZExt(a[0], int(t.W))
	case OSExt:
		return c.SExt(a[0], int(t.W))
	case OExtract:
		return c.Extract(a[0], int(t.C>>8), int(t.C&0xff))
	case OConcat:
		return c.Concat(a[0], a[1])
	}
	same := true
	for i := range a {
		if a[i] != t.Args[i] {
			same = false
		}
	}
	if same {
		return t
	}
	return c.mk(&Term{Op: t.Op, S: t.S, W: t.W, C: t.C, Name: t.Name, Args: a})
}

// Subst replaces sub-terms according to repl (bottom-up, memoised).
func (c *Ctx) Subst(t *Term, repl map[*Term]*Term, memo map[*Term]*Term) *Term {
	if r, ok := repl[t]; ok {
		return r
	}
	if len(t.Args) == 0 {
		return t
	}
	if r, ok := memo[t]; ok {
		return r
	}
	args := make([]*Term, len(t.Args))
	changed := false
	for i, a := range t.Args {
		args[i] = c.Subst(a, repl, memo)
		if args[i] != a {
			changed = true
		}
	}
	r := t
	if changed {
		r = c.Rebuild(t, args)
	}
	memo[t] = r
	return r
}

// rewrite applies the path's definitional equalities (h -> zext(x)) to a condition.
func (m *Machine) rewrite(t *Term) *Term {
	if len(m.defEq) == 0 {
		return t
	}
	if m.rwMemo == nil {
		m.rwMemo = map[*Term]*Term{}
	}
	return m.ctx.Subst(t, m.defEq, m.rwMemo)
}
