// Package gsx is a symbolic executor for go/ssa that emits SMT-LIB2.
package gsx

import (
	"fmt"
	"math"
	"math/bits"
	"strings"
)

// Sort of a term.
type Sort uint8

const (
	SBool Sort = iota
	SBV
	SF32
	SF64
)

type Op uint8

const (
	OConst Op = iota
	OVar
	// bool
	ONot
	OAnd
	OOr
	OEq  // any sort -> bool
	OIte // any sort
	// bv
	OAdd
	OSub
	OMul
	OUDiv
	OURem
	OSDiv
	OSRem
	OBAnd
	OBOr
	OBXor
	OShl
	OLShr
	OAShr
	ONeg
	OBNot
	OULt
	OULe
	OSLt
	OSLe
	OZExt    // c = new width
	OSExt    // c = new width
	OExtract // c = hi<<8|lo
	OConcat
	// fp
	OFFromBits // bv -> fp
	OFToBits   // fp -> bv (via fp.to_ieee_bv; NaN canonical)
	OFLt
	OFLe
	OFEq
	OFIsNaN
	OFAdd
	OFSub
	OFMul
	OFDiv
	OFNeg
	OFConv   // fp -> fp (sort in node)
	OFFromS  // signed bv -> fp
	OFFromU  // unsigned bv -> fp
	OFToS    // fp -> signed bv RTZ (w)
	OFToU    // fp -> unsigned bv RTZ
	OApp     // uninterpreted function name(args...) -> sort
	OSelect  // array var name, index (bv64) -> bv8
)

var opNames = map[Op]string{
	ONot: "not", OAnd: "and", OOr: "or", OEq: "=", OIte: "ite",
	OAdd: "bvadd", OSub: "bvsub", OMul: "bvmul", OUDiv: "bvudiv", OURem: "bvurem", OSDiv: "bvsdiv", OSRem: "bvsrem",
	OBAnd: "bvand", OBOr: "bvor", OBXor: "bvxor", OShl: "bvshl", OLShr: "bvlshr", OAShr: "bvashr", ONeg: "bvneg", OBNot: "bvnot",
	OULt: "bvult", OULe: "bvule", OSLt: "bvslt", OSLe: "bvsle", OConcat: "concat",
	OFLt: "fp.lt", OFLe: "fp.leq", OFEq: "fp.eq", OFIsNaN: "fp.isNaN", OFNeg: "fp.neg",
}

// Term is a hash-consed node.
type Term struct {
	Op   Op
	S    Sort
	W    uint16 // width for SBV
	C    uint64 // constant value, or parameter
	Name string
	Args []*Term
	ID   int
}

type termKey struct {
	op         Op
	s          Sort
	w          uint16
	c          uint64
	name       string
	a0, a1, a2 int
	extra      string
}

// Ctx owns the term table (one per worker; not thread-safe).
type Ctx struct {
	tab    map[termKey]*Term
	terms  []*Term
	True   *Term
	False  *Term
	nfresh int
	// declared UFs / arrays: name -> declaration text
	Decls     map[string]string
	DeclOrder []string
	hasDiv    bool
}

func NewCtx() *Ctx {
	c := &Ctx{tab: map[termKey]*Term{}, Decls: map[string]string{}}
	c.True = c.mk(&Term{Op: OConst, S: SBool, C: 1})
	c.False = c.mk(&Term{Op: OConst, S: SBool, C: 0})
	return c
}

func (c *Ctx) mk(t *Term) *Term {
	k := termKey{op: t.Op, s: t.S, w: t.W, c: t.C, name: t.Name, a0: -1, a1: -1, a2: -1}
	switch len(t.Args) {
	case 0:
	case 1:
		k.a0 = t.Args[0].ID
	case 2:
		k.a0, k.a1 = t.Args[0].ID, t.Args[1].ID
	case 3:
		k.a0, k.a1, k.a2 = t.Args[0].ID, t.Args[1].ID, t.Args[2].ID
	default:
		var sb strings.Builder
		for _, a := range t.Args {
			fmt.Fprintf(&sb, "%d,", a.ID)
		}
		k.extra = sb.String()
	}
	if x, ok := c.tab[k]; ok {
		return x
	}
	t.ID = len(c.terms)
	c.terms = append(c.terms, t)
	c.tab[k] = t
	return t
}

func mask(w uint16) uint64 {
	if w >= 64 {
		return ^uint64(0)
	}
	return (uint64(1) << w) - 1
}

func sext(v uint64, w uint16) int64 {
	if w >= 64 {
		return int64(v)
	}
	sh := 64 - uint(w)
	return int64(v<<sh) >> sh
}

func (t *Term) IsConst() bool { return t.Op == OConst }
func (t *Term) IsTrue() bool  { return t.Op == OConst && t.S == SBool && t.C == 1 }
func (t *Term) IsFalse() bool { return t.Op == OConst && t.S == SBool && t.C == 0 }

func (c *Ctx) BV(v uint64, w int) *Term {
	return c.mk(&Term{Op: OConst, S: SBV, W: uint16(w), C: v & mask(uint16(w))})
}
func (c *Ctx) Bool(b bool) *Term {
	if b {
		return c.True
	}
	return c.False
}
func (c *Ctx) F64(f float64) *Term {
	return c.mk(&Term{Op: OConst, S: SF64, C: math.Float64bits(f)})
}
func (c *Ctx) F32(f float32) *Term {
	return c.mk(&Term{Op: OConst, S: SF32, C: uint64(math.Float32bits(f))})
}

// Var creates (or returns) a named variable.
func (c *Ctx) Var(name string, s Sort, w int) *Term {
	return c.mk(&Term{Op: OVar, S: s, W: uint16(w), Name: name})
}

func (c *Ctx) Fresh(prefix string, s Sort, w int) *Term {
	c.nfresh++
	return c.Var(fmt.Sprintf("%s!%d", prefix, c.nfresh), s, w)
}

func (c *Ctx) Not(a *Term) *Term {
	if a.IsConst() {
		return c.Bool(a.C == 0)
	}
	if a.Op == ONot {
		return a.Args[0]
	}
	return c.mk(&Term{Op: ONot, S: SBool, Args: []*Term{a}})
}

func (c *Ctx) And(a, b *Term) *Term {
	if a.IsFalse() || b.IsFalse() {
		return c.False
	}
	if a.IsTrue() {
		return b
	}
	if b.IsTrue() {
		return a
	}
	if a == b {
		return a
	}
	if (a.Op == ONot && a.Args[0] == b) || (b.Op == ONot && b.Args[0] == a) {
		return c.False
	}
	if a.ID > b.ID {
		a, b = b, a
	}
	return c.mk(&Term{Op: OAnd, S: SBool, Args: []*Term{a, b}})
}

func (c *Ctx) Or(a, b *Term) *Term {
	if a.IsTrue() || b.IsTrue() {
		return c.True
	}
	if a.IsFalse() {
		return b
	}
	if b.IsFalse() {
		return a
	}
	if a == b {
		return a
	}
	if (a.Op == ONot && a.Args[0] == b) || (b.Op == ONot && b.Args[0] == a) {
		return c.True
	}
	if a.ID > b.ID {
		a, b = b, a
	}
	return c.mk(&Term{Op: OOr, S: SBool, Args: []*Term{a, b}})
}

func (c *Ctx) Implies(a, b *Term) *Term { return c.Or(c.Not(a), b) }

func (c *Ctx) Eq(a, b *Term) *Term {
	if a == b {
		if a.S == SF32 || a.S == SF64 {
			// structural equality on FP sort (= in SMT) is reflexive; callers use FEq for IEEE.
			return c.True
		}
		return c.True
	}
	if a.S != b.S || a.W != b.W {
		panic(fmt.Sprintf("Eq sort mismatch %v/%d vs %v/%d", a.S, a.W, b.S, b.W))
	}
	if a.IsConst() && b.IsConst() {
		return c.Bool(a.C == b.C)
	}
	if a.S == SBool {
		if a.IsConst() {
			a, b = b, a
		}
		if b.IsTrue() {
			return a
		}
		if b.IsFalse() {
			return c.Not(a)
		}
	}
	if a.IsConst() {
		a, b = b, a
	}
	// (ite c k1 k2) = k
	if b.IsConst() && a.Op == OIte && a.Args[1].IsConst() && a.Args[2].IsConst() {
		t1 := a.Args[1].C == b.C
		t2 := a.Args[2].C == b.C
		switch {
		case t1 && t2:
			return c.True
		case t1:
			return a.Args[0]
		case t2:
			return c.Not(a.Args[0])
		default:
			return c.False
		}
	}
	// (ite c x y) = k where one side folds
	if b.IsConst() && a.Op == OIte && a.S == SBV {
		e1 := c.Eq(a.Args[1], b)
		e2 := c.Eq(a.Args[2], b)
		if e1.IsConst() || e2.IsConst() {
			return c.Ite(a.Args[0], e1, e2)
		}
	}
	// zext(x) = k
	if b.IsConst() && a.Op == OZExt {
		x := a.Args[0]
		if b.C > mask(x.W) {
			return c.False
		}
		return c.Eq(x, c.BV(b.C, int(x.W)))
	}
	// x + k1 = k2
	if b.IsConst() && a.Op == OAdd && a.Args[1].IsConst() {
		return c.Eq(a.Args[0], c.BV(b.C-a.Args[1].C, int(a.W)))
	}
	if !a.IsConst() && !b.IsConst() && a.ID > b.ID {
		a, b = b, a
	}
	return c.mk(&Term{Op: OEq, S: SBool, Args: []*Term{a, b}})
}

func (c *Ctx) Ite(cond, a, b *Term) *Term {
	if cond.IsTrue() {
		return a
	}
	if cond.IsFalse() {
		return b
	}
	if a == b {
		return a
	}
	if a.S == SBool {
		if a.IsTrue() && b.IsFalse() {
			return cond
		}
		if a.IsFalse() && b.IsTrue() {
			return c.Not(cond)
		}
		if a.IsTrue() {
			return c.Or(cond, b)
		}
		if b.IsFalse() {
			return c.And(cond, a)
		}
		if a.IsFalse() {
			return c.And(c.Not(cond), b)
		}
		if b.IsTrue() {
			return c.Or(c.Not(cond), a)
		}
	}
	if cond.Op == ONot {
		return c.Ite(cond.Args[0], b, a)
	}
	return c.mk(&Term{Op: OIte, S: a.S, W: a.W, Args: []*Term{cond, a, b}})
}

func foldBin(op Op, x, y uint64, w uint16) (uint64, bool) {
	m := mask(w)
	switch op {
	case OAdd:
		return (x + y) & m, true
	case OSub:
		return (x - y) & m, true
	case OMul:
		return (x * y) & m, true
	case OUDiv:
		if y == 0 {
			return m, true
		}
		return x / y, true
	case OURem:
		if y == 0 {
			return x, true
		}
		return x % y, true
	case OSDiv:
		if y == 0 {
			if sext(x, w) < 0 {
				return 1, true
			}
			return m, true
		}
		sx, sy := sext(x, w), sext(y, w)
		if sy == -1 {
			return uint64(-sx) & m, true
		}
		return uint64(sx/sy) & m, true
	case OSRem:
		if y == 0 {
			return x, true
		}
		sx, sy := sext(x, w), sext(y, w)
		if sy == -1 {
			return 0, true
		}
		return uint64(sx%sy) & m, true
	case OBAnd:
		return x & y, true
	case OBOr:
		return x | y, true
	case OBXor:
		return x ^ y, true
	case OShl:
		if y >= uint64(w) {
			return 0, true
		}
		return (x << y) & m, true
	case OLShr:
		if y >= uint64(w) {
			return 0, true
		}
		return x >> y, true
	case OAShr:
		sx := sext(x, w)
		if y >= uint64(w) {
			y = uint64(w) - 1
		}
		return uint64(sx>>y) & m, true
	}
	return 0, false
}

// Bin builds a bit-vector binary operation.
func (c *Ctx) Bin(op Op, a, b *Term) *Term {
	if a.S != SBV || b.S != SBV || a.W != b.W {
		panic(fmt.Sprintf("Bin %v sort mismatch %v/%d vs %v/%d", opNames[op], a.S, a.W, b.S, b.W))
	}
	w := a.W
	if a.IsConst() && b.IsConst() {
		if v, ok := foldBin(op, a.C, b.C, w); ok {
			return c.BV(v, int(w))
		}
	}
	m := mask(w)
	switch op {
	case OAdd:
		if a.IsConst() {
			a, b = b, a
		}
		if b.IsConst() {
			if b.C == 0 {
				return a
			}
			if a.Op == OAdd && a.Args[1].IsConst() {
				return c.Bin(OAdd, a.Args[0], c.BV(a.Args[1].C+b.C, int(w)))
			}
		} else if a.ID > b.ID {
			a, b = b, a
		}
	case OSub:
		if a == b {
			return c.BV(0, int(w))
		}
		if b.IsConst() {
			return c.Bin(OAdd, a, c.BV(-b.C, int(w)))
		}
		// (x + k) - x
		if a.Op == OAdd && a.Args[0] == b {
			return a.Args[1]
		}
	case OMul:
		if a.IsConst() {
			a, b = b, a
		}
		if b.IsConst() {
			if b.C == 0 {
				return b
			}
			if b.C == 1 {
				return a
			}
		} else if a.ID > b.ID {
			a, b = b, a
		}
	case OUDiv, OSDiv:
		if b.IsConst() && b.C == 1 {
			return a
		}
		if r := c.divConst(op, a, b); r != nil {
			return r
		}
	case OURem, OSRem:
		if r := c.divConst(op, a, b); r != nil {
			return r
		}
	case OBAnd:
		if a.IsConst() {
			a, b = b, a
		}
		if b.IsConst() {
			if b.C == 0 {
				return b
			}
			if b.C == m {
				return a
			}
		}
		if a == b {
			return a
		}
	case OBOr:
		if a.IsConst() {
			a, b = b, a
		}
		if b.IsConst() {
			if b.C == 0 {
				return a
			}
			if b.C == m {
				return b
			}
		}
		if a == b {
			return a
		}
	case OBXor:
		if a.IsConst() {
			a, b = b, a
		}
		if b.IsConst() && b.C == 0 {
			return a
		}
		if a == b {
			return c.BV(0, int(w))
		}
	case OShl, OLShr, OAShr:
		if b.IsConst() && b.C == 0 {
			return a
		}
		if b.IsConst() && b.C >= uint64(w) && op != OAShr {
			return c.BV(0, int(w))
		}
		// (zext8 x) >> k with k>=8 -> 0
		if op == OLShr && b.IsConst() && a.Op == OZExt && b.C >= uint64(a.Args[0].W) {
			return c.BV(0, int(w))
		}
	}
	if op == OUDiv || op == OURem || op == OSDiv || op == OSRem || (op == OMul && !b.IsConst()) {
		c.hasDiv = true
	}
	return c.mk(&Term{Op: op, S: SBV, W: w, Args: []*Term{a, b}})
}

func (c *Ctx) Neg(a *Term) *Term {
	if a.IsConst() {
		return c.BV(-a.C, int(a.W))
	}
	return c.mk(&Term{Op: ONeg, S: SBV, W: a.W, Args: []*Term{a}})
}
func (c *Ctx) BNot(a *Term) *Term {
	if a.IsConst() {
		return c.BV(^a.C, int(a.W))
	}
	return c.mk(&Term{Op: OBNot, S: SBV, W: a.W, Args: []*Term{a}})
}

// Cmp builds a bit-vector comparison (OULt, OULe, OSLt, OSLe).
func (c *Ctx) Cmp(op Op, a, b *Term) *Term {
	if a.S != SBV || b.S != SBV || a.W != b.W {
		panic(fmt.Sprintf("Cmp sort mismatch %v/%d vs %v/%d", a.S, a.W, b.S, b.W))
	}
	if a.IsConst() && b.IsConst() {
		switch op {
		case OULt:
			return c.Bool(a.C < b.C)
		case OULe:
			return c.Bool(a.C <= b.C)
		case OSLt:
			return c.Bool(sext(a.C, a.W) < sext(b.C, b.W))
		case OSLe:
			return c.Bool(sext(a.C, a.W) <= sext(b.C, b.W))
		}
	}
	if a == b {
		return c.Bool(op == OULe || op == OSLe)
	}
	switch op {
	case OULt:
		if b.IsConst() && b.C == 0 {
			return c.False
		}
		if a.IsConst() && a.C == mask(a.W) {
			return c.False
		}
	case OULe:
		if a.IsConst() && a.C == 0 {
			return c.True
		}
		if b.IsConst() && b.C == mask(b.W) {
			return c.True
		}
	}
	// range facts for zero-extended values
	if lo, hi, ok := urange(a); ok {
		if lo2, hi2, ok2 := urange(b); ok2 {
			topbit := uint64(1) << (a.W - 1)
			unsignedOK := op == OULt || op == OULe
			signedOK := (op == OSLt || op == OSLe) && hi < topbit && hi2 < topbit
			if unsignedOK || signedOK {
				switch op {
				case OULt, OSLt:
					if hi < lo2 {
						return c.True
					}
					if lo >= hi2 {
						return c.False
					}
				case OULe, OSLe:
					if hi <= lo2 {
						return c.True
					}
					if lo > hi2 {
						return c.False
					}
				}
			}
		}
	}
	return c.mk(&Term{Op: op, S: SBool, Args: []*Term{a, b}})
}

// urange returns a cheap unsigned interval for a term.
func urange(t *Term) (lo, hi uint64, ok bool) {
	switch t.Op {
	case OConst:
		return t.C, t.C, true
	case OZExt:
		return 0, mask(t.Args[0].W), true
	case OAdd:
		if t.Args[1].IsConst() {
			l, h, ok := urange(t.Args[0])
			if ok {
				k := t.Args[1].C
				if h+k >= h && h+k <= mask(t.W) {
					return l + k, h + k, true
				}
			}
		}
	case OBAnd:
		if t.Args[1].IsConst() {
			return 0, t.Args[1].C, true
		}
	case OURem:
		if t.Args[1].IsConst() && t.Args[1].C > 0 {
			return 0, t.Args[1].C - 1, true
		}
	case OIte:
		l1, h1, ok1 := urange(t.Args[1])
		l2, h2, ok2 := urange(t.Args[2])
		if ok1 && ok2 {
			if l2 < l1 {
				l1 = l2
			}
			if h2 > h1 {
				h1 = h2
			}
			return l1, h1, true
		}
	}
	return 0, 0, false
}

func (c *Ctx) ZExt(a *Term, w int) *Term {
	if int(a.W) == w {
		return a
	}
	if int(a.W) > w {
		return c.Extract(a, w-1, 0)
	}
	if a.IsConst() {
		return c.BV(a.C, w)
	}
	if a.Op == OZExt {
		return c.ZExt(a.Args[0], w)
	}
	return c.mk(&Term{Op: OZExt, S: SBV, W: uint16(w), C: uint64(w), Args: []*Term{a}})
}

func (c *Ctx) SExt(a *Term, w int) *Term {
	if int(a.W) == w {
		return a
	}
	if int(a.W) > w {
		return c.Extract(a, w-1, 0)
	}
	if a.IsConst() {
		return c.BV(uint64(sext(a.C, a.W)), w)
	}
	if a.Op == OZExt {
		return c.ZExt(a.Args[0], w)
	}
	return c.mk(&Term{Op: OSExt, S: SBV, W: uint16(w), C: uint64(w), Args: []*Term{a}})
}

func (c *Ctx) Extract(a *Term, hi, lo int) *Term {
	w := hi - lo + 1
	if lo == 0 && w == int(a.W) {
		return a
	}
	if a.IsConst() {
		return c.BV(a.C>>uint(lo), w)
	}
	switch a.Op {
	case OZExt, OSExt:
		x := a.Args[0]
		if hi < int(x.W) {
			return c.Extract(x, hi, lo)
		}
		if lo >= int(x.W) && a.Op == OZExt {
			return c.BV(0, w)
		}
		if lo == 0 && a.Op == OZExt {
			return c.ZExt(x, w)
		}
		if lo == 0 && a.Op == OSExt {
			return c.SExt(x, w)
		}
	case OExtract:
		l0 := int(a.C & 0xff)
		return c.Extract(a.Args[0], hi+l0, lo+l0)
	case OConcat:
		lowW := int(a.Args[1].W)
		if hi < lowW {
			return c.Extract(a.Args[1], hi, lo)
		}
		if lo >= lowW {
			return c.Extract(a.Args[0], hi-lowW, lo-lowW)
		}
	case OLShr:
		// (x >> k)[hi:lo] = x[hi+k:lo+k] when in range
		if a.Args[1].IsConst() {
			k := int(a.Args[1].C)
			if hi+k < int(a.W) {
				return c.Extract(a.Args[0], hi+k, lo+k)
			}
		}
	case OShl:
		if a.Args[1].IsConst() {
			k := int(a.Args[1].C)
			if lo >= k {
				return c.Extract(a.Args[0], hi-k, lo-k)
			}
			if hi < k {
				return c.BV(0, w)
			}
		}
	case OBOr, OBAnd, OBXor:
		if lo == 0 || true {
			x := c.Extract(a.Args[0], hi, lo)
			y := c.Extract(a.Args[1], hi, lo)
			return c.Bin(a.Op, x, y)
		}
	case OIte:
		if a.Args[1].IsConst() || a.Args[2].IsConst() {
			return c.Ite(a.Args[0], c.Extract(a.Args[1], hi, lo), c.Extract(a.Args[2], hi, lo))
		}
	}
	return c.mk(&Term{Op: OExtract, S: SBV, W: uint16(w), C: uint64(hi)<<8 | uint64(lo), Args: []*Term{a}})
}

func (c *Ctx) Concat(hi, lo *Term) *Term {
	w := int(hi.W) + int(lo.W)
	if w > 64 {
		panic("concat wider than 64")
	}
	if hi.IsConst() && lo.IsConst() {
		return c.BV(hi.C<<lo.W|lo.C, w)
	}
	// adjacent slices of one term: x[h1:l1] ++ x[h2:l2] with l1 == h2+1  ==>  x[h1:l2]
	if hi.Op == OExtract && lo.Op == OExtract && hi.Args[0] == lo.Args[0] {
		h1, l1 := int(hi.C>>8), int(hi.C&0xff)
		h2, l2 := int(lo.C>>8), int(lo.C&0xff)
		if l1 == h2+1 {
			return c.Extract(hi.Args[0], h1, l2)
		}
	}
	if hi.Op == OExtract && lo == hi.Args[0] && int(hi.C&0xff) == int(lo.W) {
		// x[h:w] ++ x  where x has width w: is x'[h:0] only if x is itself a low slice; skip
	}
	return c.mk(&Term{Op: OConcat, S: SBV, W: uint16(w), Args: []*Term{hi, lo}})
}

// ---- floating point ----

func fsort(bitsz int) Sort {
	if bitsz == 32 {
		return SF32
	}
	return SF64
}

func (c *Ctx) FFromBits(a *Term) *Term {
	s := fsort(int(a.W))
	if a.IsConst() {
		return c.mk(&Term{Op: OConst, S: s, C: a.C})
	}
	if a.Op == OFToBits {
		// note: not an identity for NaN payloads; SMT has one NaN, consistent with model.
		return a.Args[0]
	}
	return c.mk(&Term{Op: OFFromBits, S: s, Args: []*Term{a}})
}

func fwidth(s Sort) int {
	if s == SF32 {
		return 32
	}
	return 64
}

// FToBits: IEEE bits. For NaN the canonical quiet NaN pattern is produced
// (Go preserves payloads; the repository canonicalises NaN before writing).
func (c *Ctx) FToBits(a *Term) *Term {
	w := fwidth(a.S)
	if a.IsConst() {
		return c.BV(a.C, w)
	}
	if a.Op == OFFromBits {
		x := a.Args[0]
		// bits(frombits(x)) = x unless x is NaN, in which case canonical
		return c.Ite(c.FIsNaN(a), c.BV(canonNaN(a.S), w), x)
	}
	return c.mk(&Term{Op: OFToBits, S: SBV, W: uint16(w), Args: []*Term{a}})
}

func canonNaN(s Sort) uint64 {
	if s == SF32 {
		return 0x7fc00000
	}
	return 0x7ff8000000000000
}

func fval(t *Term) float64 {
	if t.S == SF32 {
		return float64(math.Float32frombits(uint32(t.C)))
	}
	return math.Float64frombits(t.C)
}

func (c *Ctx) fconst(s Sort, f float64) *Term {
	if s == SF32 {
		return c.F32(float32(f))
	}
	return c.F64(f)
}

func (c *Ctx) FIsNaN(a *Term) *Term {
	if a.IsConst() {
		return c.Bool(math.IsNaN(fval(a)))
	}
	if a.Op == OFFromS || a.Op == OFFromU {
		return c.False
	}
	return c.mk(&Term{Op: OFIsNaN, S: SBool, Args: []*Term{a}})
}

func (c *Ctx) FCmp(op Op, a, b *Term) *Term {
	if a.IsConst() && b.IsConst() {
		x, y := fval(a), fval(b)
		switch op {
		case OFLt:
			return c.Bool(x < y)
		case OFLe:
			return c.Bool(x <= y)
		case OFEq:
			return c.Bool(x == y)
		}
	}
	return c.mk(&Term{Op: op, S: SBool, Args: []*Term{a, b}})
}

func (c *Ctx) FBin(op Op, a, b *Term) *Term {
	if a.IsConst() && b.IsConst() {
		x, y := fval(a), fval(b)
		var r float64
		switch op {
		case OFAdd:
			r = x + y
		case OFSub:
			r = x - y
		case OFMul:
			r = x * y
		case OFDiv:
			r = x / y
		}
		if a.S == SF32 {
			switch op {
			case OFAdd:
				return c.F32(float32(x) + float32(y))
			case OFSub:
				return c.F32(float32(x) - float32(y))
			case OFMul:
				return c.F32(float32(x) * float32(y))
			case OFDiv:
				return c.F32(float32(x) / float32(y))
			}
		}
		return c.F64(r)
	}
	return c.mk(&Term{Op: op, S: a.S, Args: []*Term{a, b}})
}

func (c *Ctx) FNeg(a *Term) *Term {
	if a.IsConst() {
		return c.fconst(a.S, -fval(a))
	}
	return c.mk(&Term{Op: OFNeg, S: a.S, Args: []*Term{a}})
}

func (c *Ctx) FConv(a *Term, to Sort) *Term {
	if a.S == to {
		return a
	}
	if a.IsConst() {
		return c.fconst(to, fval(a))
	}
	// float32(float64(x)) == x for x float32 (exact widening, incl. NaN in SMT)
	if a.Op == OFConv && a.Args[0].S == to && to == SF32 {
		return a.Args[0]
	}
	return c.mk(&Term{Op: OFConv, S: to, Args: []*Term{a}})
}

func (c *Ctx) FFromInt(a *Term, signed bool, to Sort) *Term {
	if a.IsConst() {
		if signed {
			return c.fconst(to, float64(sext(a.C, a.W)))
		}
		return c.fconst(to, float64(a.C))
	}
	op := OFFromU
	if signed {
		op = OFFromS
	}
	return c.mk(&Term{Op: op, S: to, Args: []*Term{a}})
}

func (c *Ctx) FToInt(a *Term, signed bool, w int) *Term {
	if a.IsConst() {
		f := fval(a)
		if signed {
			return c.BV(uint64(int64(f)), w)
		}
		return c.BV(uint64(f), w)
	}
	op := OFToU
	if signed {
		op = OFToS
	}
	return c.mk(&Term{Op: op, S: SBV, W: uint16(w), Args: []*Term{a}})
}

// App: uninterpreted function application.
func (c *Ctx) App(name string, s Sort, w int, args ...*Term) *Term {
	if _, ok := c.Decls[name]; !ok {
		var sb strings.Builder
		fmt.Fprintf(&sb, "(declare-fun |%s| (", name)
		for _, a := range args {
			sb.WriteString(sortStr(a.S, a.W) + " ")
		}
		fmt.Fprintf(&sb, ") %s)", sortStr(s, uint16(w)))
		c.Decls[name] = sb.String()
		c.DeclOrder = append(c.DeclOrder, name)
	}
	return c.mk(&Term{Op: OApp, S: s, W: uint16(w), Name: name, Args: args})
}

// Select reads byte idx (bv64) of an unconstrained named byte array.
func (c *Ctx) Select(arr string, idx *Term) *Term {
	return c.App(arr, SBV, 8, idx)
}

func sortStr(s Sort, w uint16) string {
	switch s {
	case SBool:
		return "Bool"
	case SBV:
		return fmt.Sprintf("(_ BitVec %d)", w)
	case SF32:
		return "(_ FloatingPoint 8 24)"
	default:
		return "(_ FloatingPoint 11 53)"
	}
}

func bvLit(v uint64, w uint16) string {
	if w%4 == 0 {
		return fmt.Sprintf("#x%0*x", int(w/4), v&mask(w))
	}
	return fmt.Sprintf("(_ bv%d %d)", v&mask(w), w)
}

// head returns the SMT text of t in terms of the names of its arguments.
func (t *Term) smtBody(name func(*Term) string) string {
	switch t.Op {
	case OConst:
		switch t.S {
		case SBool:
			if t.C == 1 {
				return "true"
			}
			return "false"
		case SBV:
			return bvLit(t.C, t.W)
		case SF32:
			return fmt.Sprintf("((_ to_fp 8 24) %s)", bvLit(t.C, 32))
		default:
			return fmt.Sprintf("((_ to_fp 11 53) %s)", bvLit(t.C, 64))
		}
	case OVar:
		return "|" + t.Name + "|"
	case OZExt:
		return fmt.Sprintf("((_ zero_extend %d) %s)", int(t.W)-int(t.Args[0].W), name(t.Args[0]))
	case OSExt:
		return fmt.Sprintf("((_ sign_extend %d) %s)", int(t.W)-int(t.Args[0].W), name(t.Args[0]))
	case OExtract:
		return fmt.Sprintf("((_ extract %d %d) %s)", t.C>>8, t.C&0xff, name(t.Args[0]))
	case OFFromBits:
		if t.S == SF32 {
			return fmt.Sprintf("((_ to_fp 8 24) %s)", name(t.Args[0]))
		}
		return fmt.Sprintf("((_ to_fp 11 53) %s)", name(t.Args[0]))
	case OFToBits:
		// handled through a side constraint (see Solver.define)
		return "|fbits!" + fmt.Sprint(t.ID) + "|"
	case OFAdd, OFSub, OFMul, OFDiv:
		n := map[Op]string{OFAdd: "fp.add", OFSub: "fp.sub", OFMul: "fp.mul", OFDiv: "fp.div"}[t.Op]
		return fmt.Sprintf("(%s RNE %s %s)", n, name(t.Args[0]), name(t.Args[1]))
	case OFConv:
		if t.S == SF32 {
			return fmt.Sprintf("((_ to_fp 8 24) RNE %s)", name(t.Args[0]))
		}
		return fmt.Sprintf("((_ to_fp 11 53) RNE %s)", name(t.Args[0]))
	case OFFromS:
		if t.S == SF32 {
			return fmt.Sprintf("((_ to_fp 8 24) RNE %s)", name(t.Args[0]))
		}
		return fmt.Sprintf("((_ to_fp 11 53) RNE %s)", name(t.Args[0]))
	case OFFromU:
		if t.S == SF32 {
			return fmt.Sprintf("((_ to_fp_unsigned 8 24) RNE %s)", name(t.Args[0]))
		}
		return fmt.Sprintf("((_ to_fp_unsigned 11 53) RNE %s)", name(t.Args[0]))
	case OFToS:
		return fmt.Sprintf("((_ fp.to_sbv %d) RTZ %s)", t.W, name(t.Args[0]))
	case OFToU:
		return fmt.Sprintf("((_ fp.to_ubv %d) RTZ %s)", t.W, name(t.Args[0]))
	case OApp:
		if len(t.Args) == 0 {
			return "|" + t.Name + "|"
		}
		var sb strings.Builder
		sb.WriteString("(|" + t.Name + "|")
		for _, a := range t.Args {
			sb.WriteString(" " + name(a))
		}
		sb.WriteString(")")
		return sb.String()
	}
	n, ok := opNames[t.Op]
	if !ok {
		panic(fmt.Sprintf("smtBody: op %d", t.Op))
	}
	var sb strings.Builder
	sb.WriteString("(" + n)
	for _, a := range t.Args {
		sb.WriteString(" " + name(a))
	}
	sb.WriteString(")")
	return sb.String()
}

// String renders a term as a (possibly large) SMT expression; for samples/debug.
func (t *Term) String() string {
	var rec func(t *Term, d int) string
	rec = func(t *Term, d int) string {
		if d > 12 {
			return "…"
		}
		return t.smtBody(func(a *Term) string { return rec(a, d+1) })
	}
	return rec(t, 0)
}

// Eval evaluates t under env (variable name -> value). Unknown variables are 0.
// FP values are carried as IEEE bit patterns. UF applications are looked up
// by their rendered key in env.App if present, else 0.
type Env struct {
	Vars map[string]uint64
	memo map[int]uint64
}

func (c *Ctx) Eval(t *Term, env *Env) uint64 {
	if env.memo == nil {
		env.memo = map[int]uint64{}
	}
	if v, ok := env.memo[t.ID]; ok {
		return v
	}
	v := c.eval1(t, env)
	env.memo[t.ID] = v
	return v
}

func b2u(b bool) uint64 {
	if b {
		return 1
	}
	return 0
}

func (c *Ctx) eval1(t *Term, env *Env) uint64 {
	ev := func(i int) uint64 { return c.Eval(t.Args[i], env) }
	fv := func(i int) float64 {
		a := t.Args[i]
		x := ev(i)
		if a.S == SF32 {
			return float64(math.Float32frombits(uint32(x)))
		}
		return math.Float64frombits(x)
	}
	fres := func(f float64) uint64 {
		if t.S == SF32 {
			return uint64(math.Float32bits(float32(f)))
		}
		return math.Float64bits(f)
	}
	switch t.Op {
	case OConst:
		return t.C
	case OVar:
		return env.Vars[t.Name] & maskOf(t)
	case ONot:
		return 1 - ev(0)
	case OAnd:
		return ev(0) & ev(1)
	case OOr:
		return ev(0) | ev(1)
	case OEq:
		if t.Args[0].S == SF32 || t.Args[0].S == SF64 {
			x, y := fv(0), fv(1)
			if math.IsNaN(x) && math.IsNaN(y) {
				return 1
			}
			return b2u(ev(0) == ev(1))
		}
		return b2u(ev(0) == ev(1))
	case OIte:
		if ev(0) == 1 {
			return ev(1)
		}
		return ev(2)
	case OAdd, OSub, OMul, OUDiv, OURem, OSDiv, OSRem, OBAnd, OBOr, OBXor, OShl, OLShr, OAShr:
		v, _ := foldBin(t.Op, ev(0), ev(1), t.W)
		return v
	case ONeg:
		return (-ev(0)) & mask(t.W)
	case OBNot:
		return (^ev(0)) & mask(t.W)
	case OULt:
		return b2u(ev(0) < ev(1))
	case OULe:
		return b2u(ev(0) <= ev(1))
	case OSLt:
		return b2u(sext(ev(0), t.Args[0].W) < sext(ev(1), t.Args[0].W))
	case OSLe:
		return b2u(sext(ev(0), t.Args[0].W) <= sext(ev(1), t.Args[0].W))
	case OZExt:
		return ev(0)
	case OSExt:
		return uint64(sext(ev(0), t.Args[0].W)) & mask(t.W)
	case OExtract:
		lo := t.C & 0xff
		return (ev(0) >> lo) & mask(t.W)
	case OConcat:
		return ev(0)<<t.Args[1].W | ev(1)
	case OFFromBits:
		return ev(0)
	case OFToBits:
		x := ev(0)
		if math.IsNaN(fv(0)) {
			return canonNaN(t.Args[0].S)
		}
		return x
	case OFLt:
		return b2u(fv(0) < fv(1))
	case OFLe:
		return b2u(fv(0) <= fv(1))
	case OFEq:
		return b2u(fv(0) == fv(1))
	case OFIsNaN:
		return b2u(math.IsNaN(fv(0)))
	case OFAdd:
		if t.S == SF32 {
			return uint64(math.Float32bits(float32(fv(0)) + float32(fv(1))))
		}
		return fres(fv(0) + fv(1))
	case OFSub:
		if t.S == SF32 {
			return uint64(math.Float32bits(float32(fv(0)) - float32(fv(1))))
		}
		return fres(fv(0) - fv(1))
	case OFMul:
		if t.S == SF32 {
			return uint64(math.Float32bits(float32(fv(0)) * float32(fv(1))))
		}
		return fres(fv(0) * fv(1))
	case OFDiv:
		if t.S == SF32 {
			return uint64(math.Float32bits(float32(fv(0)) / float32(fv(1))))
		}
		return fres(fv(0) / fv(1))
	case OFNeg:
		return fres(-fv(0))
	case OFConv:
		return fres(fv(0))
	case OFFromS:
		return fres(float64(sext(ev(0), t.Args[0].W)))
	case OFFromU:
		return fres(float64(ev(0)))
	case OFToS:
		return uint64(int64(fv(0))) & mask(t.W)
	case OFToU:
		return uint64(fv(0)) & mask(t.W)
	case OApp:
		var sb strings.Builder
		sb.WriteString(t.Name)
		for i := range t.Args {
			fmt.Fprintf(&sb, ",%d", ev(i))
		}
		return env.Vars[sb.String()] & maskOf(t)
	}
	panic("eval: op")
}

func maskOf(t *Term) uint64 {
	switch t.S {
	case SBool:
		return 1
	case SBV:
		return mask(t.W)
	case SF32:
		return 0xffffffff
	}
	return ^uint64(0)
}

// Vars collects the variables of a set of terms (deterministic order).
func CollectVars(ts []*Term) []*Term {
	seen := map[int]bool{}
	var out []*Term
	var st []*Term
	st = append(st, ts...)
	for len(st) > 0 {
		t := st[len(st)-1]
		st = st[:len(st)-1]
		if seen[t.ID] {
			continue
		}
		seen[t.ID] = true
		if t.Op == OVar {
			out = append(out, t)
		}
		st = append(st, t.Args...)
	}
	return out
}

var _ = bits.Len

// divConst simplifies division / remainder by a constant when the dividend is a small
// non-negative quantity: zext(y) or zext(y)*k with y at most 32 bits wide (no overflow,
// so signed and unsigned operations agree and the usual arithmetic identities hold).
func (c *Ctx) divConst(op Op, a, b *Term) *Term {
	if !b.IsConst() || b.C == 0 || a.W != 64 || b.C >= 1<<31 {
		return nil
	}
	isDiv := op == OUDiv || op == OSDiv
	x, k := a, uint64(1)
	if a.Op == OMul && a.Args[1].IsConst() {
		x, k = a.Args[0], a.Args[1].C
	}
	if x.Op != OZExt || x.Args[0].W > 32 || k == 0 || k >= 1<<31 {
		return nil
	}
	y := x.Args[0]
	d := b.C
	switch {
	case k%d == 0: // (x*k)/d = x*(k/d), remainder 0
		if isDiv {
			return c.Bin(OMul, x, c.BV(k/d, 64))
		}
		return c.BV(0, 64)
	case d%k == 0: // (x*k)/d = x/(d/k); (x*k)%d = (x%(d/k))*k
		e := d / k
		if e >= 1<<uint(y.W) {
			if isDiv {
				return c.BV(0, 64)
			}
			return a
		}
		if k == 1 && d == e && x == a {
			// plain zext(y)/d: do it at y's width
			var r *Term
			if isDiv {
				r = c.mk(&Term{Op: OUDiv, S: SBV, W: y.W, Args: []*Term{y, c.BV(e, int(y.W))}})
			} else {
				r = c.mk(&Term{Op: OURem, S: SBV, W: y.W, Args: []*Term{y, c.BV(e, int(y.W))}})
			}
			c.hasDiv = true
			return c.ZExt(r, 64)
		}
		if isDiv {
			return c.Bin(OUDiv, x, c.BV(e, 64))
		}
		return c.Bin(OMul, c.Bin(OURem, x, c.BV(e, 64)), c.BV(k, 64))
	}
	return nil
}
