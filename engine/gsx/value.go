package gsx

import (
	"fmt"
	"go/types"
	"strings"

	"golang.org/x/tools/go/ssa"
)

// Value is one of:
//   *Term                 bool / ints / floats
//   Str                   string
//   *Value                pointer (nil pointer = (*Value)(nil))
//   Struct, Array, Tuple  aggregates (by value)
//   Slice                 slice header over a host backing array
//   *Map, *Chan
//   Iface                 interface value
//   *ssa.Function, *ssa.Builtin, *Closure, nil (nil func)
//   RV                    reflect.Value
//   RT                    reflect.Type payload (inside Iface)
type Value interface{}

type Struct []Value
type Array []Value
type Tuple []Value

type Slice struct {
	V []Value
}

type Str struct {
	S string
	B []*Term // non-nil => symbolic bytes (len(B) is the length)
}

type Iface struct {
	T types.Type // nil => nil interface
	V Value
}

type Closure struct {
	Fn  *ssa.Function
	Env []Value
}

type mapEntry struct {
	K   Value
	V   Value
	Key string // canonical key if concrete, "" if symbolic
}

type Map struct {
	E      []mapEntry
	idx    map[string]int
	hasSym bool
	KT, VT types.Type
}

type Chan struct {
	Buf    []Value
	Cap    int
	Closed bool
	ET     types.Type
	// rendezvous for unbuffered channels
	sendq []*chanWaiter
	recvWaiting int
	ID    int
	Timer *simTimer
	// where the last buffered value was sent from (for native schedule following)
	lastFile string
	lastLine, lastOcc int
}

type chanWaiter struct {
	g    *G
	v    Value
	done bool
}

// SlicePtr is what unsafe.SliceData / unsafe.StringData yields.
type SlicePtr struct {
	V []Value
	S *Str
}

func (s Str) Len() int {
	if s.B != nil {
		return len(s.B)
	}
	return len(s.S)
}

func (s Str) Concrete() bool { return s.B == nil }

func (c *Ctx) StrBytes(s Str) []*Term {
	if s.B != nil {
		return s.B
	}
	out := make([]*Term, len(s.S))
	for i := 0; i < len(s.S); i++ {
		out[i] = c.BV(uint64(s.S[i]), 8)
	}
	return out
}

func mkStr(bs []*Term) Str {
	conc := true
	for _, b := range bs {
		if !b.IsConst() {
			conc = false
			break
		}
	}
	if conc {
		buf := make([]byte, len(bs))
		for i, b := range bs {
			buf[i] = byte(b.C)
		}
		return Str{S: string(buf)}
	}
	if bs == nil {
		bs = []*Term{}
	}
	return Str{B: bs}
}

func intWidth(b *types.Basic) (w int, signed bool) {
	switch b.Kind() {
	case types.Int8:
		return 8, true
	case types.Int16:
		return 16, true
	case types.Int32, types.UntypedRune:
		return 32, true
	case types.Int64, types.Int, types.UntypedInt:
		return 64, true
	case types.Uint8:
		return 8, false
	case types.Uint16:
		return 16, false
	case types.Uint32:
		return 32, false
	case types.Uint64, types.Uint, types.Uintptr:
		return 64, false
	}
	return 0, false
}

func isReflectValue(t types.Type) bool {
	n, ok := t.(*types.Named)
	return ok && n.Obj().Pkg() != nil && n.Obj().Pkg().Path() == "reflect" && n.Obj().Name() == "Value"
}

func (m *Machine) zero(t types.Type) Value {
	if isReflectValue(t) {
		return RV{}
	}
	switch t := t.Underlying().(type) {
	case *types.Basic:
		switch {
		case t.Kind() == types.Bool || t.Kind() == types.UntypedBool:
			return m.ctx.False
		case t.Info()&types.IsInteger != 0:
			w, _ := intWidth(t)
			return m.ctx.BV(0, w)
		case t.Kind() == types.Float32:
			return m.ctx.F32(0)
		case t.Kind() == types.Float64 || t.Kind() == types.UntypedFloat:
			return m.ctx.F64(0)
		case t.Info()&types.IsString != 0:
			return Str{}
		case t.Kind() == types.UnsafePointer:
			return (*Value)(nil)
		case t.Kind() == types.UntypedNil:
			return nil
		}
		panic(fmt.Sprintf("zero: basic %v", t))
	case *types.Pointer:
		return (*Value)(nil)
	case *types.Slice:
		return Slice{}
	case *types.Map:
		return (*Map)(nil)
	case *types.Chan:
		return (*Chan)(nil)
	case *types.Signature:
		return nil
	case *types.Interface:
		return Iface{}
	case *types.Struct:
		s := make(Struct, t.NumFields())
		for i := range s {
			s[i] = m.zero(t.Field(i).Type())
		}
		return s
	case *types.Array:
		a := make(Array, t.Len())
		if t.Len() > 0 {
			z := m.zero(t.Elem())
			a[0] = z
			for i := 1; i < len(a); i++ {
				a[i] = copyVal(z)
			}
		}
		return a
	case *types.Tuple:
		tp := make(Tuple, t.Len())
		for i := range tp {
			tp[i] = m.zero(t.At(i).Type())
		}
		return tp
	}
	panic(fmt.Sprintf("zero: type %v (%T)", t, t))
}

// copyVal copies by-value aggregates.
func copyVal(v Value) Value {
	switch v := v.(type) {
	case Struct:
		n := make(Struct, len(v))
		for i, x := range v {
			n[i] = copyVal(x)
		}
		return n
	case Array:
		n := make(Array, len(v))
		for i, x := range v {
			n[i] = copyVal(x)
		}
		return n
	case Tuple:
		n := make(Tuple, len(v))
		for i, x := range v {
			n[i] = copyVal(x)
		}
		return n
	}
	return v
}

type undo struct {
	p   *Value
	old Value
	mp  *Map
	e   []mapEntry
	hs  bool
	ch  *Chan
	chs Chan
	fn  func()
}

// store writes v to *p (element-wise for aggregates so interior pointers stay valid).
func (m *Machine) store(p *Value, v Value) {
	switch cur := (*p).(type) {
	case Struct:
		if nv, ok := v.(Struct); ok && len(nv) == len(cur) {
			for i := range cur {
				m.store(&cur[i], nv[i])
			}
			return
		}
	case Array:
		if nv, ok := v.(Array); ok && len(nv) == len(cur) {
			for i := range cur {
				m.store(&cur[i], nv[i])
			}
			return
		}
	}
	if m.frozen != nil {
		m.checkFrozen(p)
	}
	if m.journalOn {
		m.journal = append(m.journal, undo{p: p, old: *p})
	}
	*p = copyVal(v)
}

func (m *Machine) load(p *Value) Value {
	return copyVal(*p)
}

func (m *Machine) rollback() {
	for i := len(m.journal) - 1; i >= 0; i-- {
		u := &m.journal[i]
		switch {
		case u.p != nil:
			*u.p = u.old
		case u.mp != nil:
			u.mp.E = u.e
			u.mp.idx = nil
			u.mp.hasSym = u.hs
		case u.ch != nil:
			*u.ch = u.chs
		case u.fn != nil:
			u.fn()
		}
	}
	m.journal = m.journal[:0]
}

func (m *Machine) touchChan(c *Chan) {
	if m.journalOn {
		m.journal = append(m.journal, undo{ch: c, chs: *c})
	}
}

// ---- maps ----

// keyString returns a canonical string for a concrete key, ok=false if symbolic.
func keyString(v Value) (string, bool) {
	switch v := v.(type) {
	case *Term:
		if v.IsConst() {
			return fmt.Sprintf("i%d:%d", v.W, v.C), true
		}
		return "", false
	case Str:
		if v.B == nil {
			return "s" + v.S, true
		}
		return "", false
	case *Value:
		return fmt.Sprintf("p%p", v), true
	case *Map:
		return fmt.Sprintf("m%p", v), true
	case *Chan:
		return fmt.Sprintf("c%p", v), true
	case Iface:
		if v.T == nil {
			return "nil", true
		}
		k, ok := keyString(v.V)
		return "I" + v.T.String() + "/" + k, ok
	case RT:
		// byte/uint8 and rune/int32 are identical types with different spellings
		ts := strings.ReplaceAll(strings.ReplaceAll(v.T.String(), "byte", "uint8"), "rune", "int32")
		return "T" + ts, true
	case Struct:
		var sb strings.Builder
		sb.WriteString("{")
		for _, f := range v {
			k, ok := keyString(f)
			if !ok {
				return "", false
			}
			fmt.Fprintf(&sb, "%d:%s,", len(k), k)
		}
		return sb.String(), true
	case Array:
		var sb strings.Builder
		sb.WriteString("[")
		for _, f := range v {
			k, ok := keyString(f)
			if !ok {
				return "", false
			}
			fmt.Fprintf(&sb, "%d:%s,", len(k), k)
		}
		return sb.String(), true
	case nil:
		return "nil", true
	}
	panic(fmt.Sprintf("keyString: %T", v))
}

func (mp *Map) index() map[string]int {
	if mp.idx == nil {
		mp.idx = make(map[string]int, len(mp.E))
		for i, e := range mp.E {
			if e.Key != "" {
				mp.idx[e.Key] = i
			}
		}
	}
	return mp.idx
}

// mapFind returns the index of the entry equal to k (forking on symbolic comparisons), or -1.
func (m *Machine) mapFind(mp *Map, k Value) int {
	if mp == nil {
		return -1
	}
	ks, conc := keyString(k)
	if conc && !mp.hasSym {
		if i, ok := mp.index()[ks]; ok {
			return i
		}
		return -1
	}
	// symbolic: compare with each entry
	for i, e := range mp.E {
		if conc && e.Key != "" {
			if e.Key == ks {
				return i
			}
			continue
		}
		eq := m.equal(e.K, k)
		if m.branch(eq) {
			return i
		}
	}
	return -1
}

func (m *Machine) mapGet(mp *Map, k Value) (Value, bool) {
	i := m.mapFind(mp, k)
	if i < 0 {
		return nil, false
	}
	return copyVal(mp.E[i].V), true
}

func (m *Machine) mapTouch(mp *Map) {
	if m.journalOn {
		m.journal = append(m.journal, undo{mp: mp, e: mp.E, hs: mp.hasSym})
		// copy-on-write
		ne := make([]mapEntry, len(mp.E), len(mp.E)+1)
		copy(ne, mp.E)
		mp.E = ne
	}
}

func (m *Machine) mapSet(mp *Map, k, v Value) {
	if mp == nil {
		m.goPanic("assignment to entry in nil map")
	}
	i := m.mapFind(mp, k)
	m.mapTouch(mp)
	if i >= 0 {
		mp.E[i].V = copyVal(v)
		return
	}
	ks, conc := keyString(k)
	if !conc {
		ks = ""
		mp.hasSym = true
	}
	mp.E = append(mp.E, mapEntry{K: copyVal(k), V: copyVal(v), Key: ks})
	if mp.idx != nil {
		if m.journalOn {
			mp.idx = nil
		} else if ks != "" {
			mp.idx[ks] = len(mp.E) - 1
		}
	}
}

func (m *Machine) mapDelete(mp *Map, k Value) {
	if mp == nil {
		return
	}
	i := m.mapFind(mp, k)
	if i < 0 {
		return
	}
	m.mapTouch(mp)
	mp.E = append(mp.E[:i:i], mp.E[i+1:]...)
	mp.idx = nil
}

// ---- equality ----

func isNil(v Value) bool {
	switch v := v.(type) {
	case nil:
		return true
	case *Value:
		return v == nil
	case *Map:
		return v == nil
	case *Chan:
		return v == nil
	case Slice:
		return v.V == nil
	case LSlice:
		return false
	case Iface:
		return v.T == nil
	case *Closure:
		return v == nil
	case *ssa.Function:
		return v == nil
	}
	return false
}

// equal returns a Bool term for Go's == on two values of the same static type.
func (m *Machine) equal(a, b Value) *Term {
	c := m.ctx
	switch x := a.(type) {
	case *Term:
		y, ok := b.(*Term)
		if !ok {
			return c.False
		}
		if x.S == SF32 || x.S == SF64 {
			return c.FCmp(OFEq, x, y)
		}
		return c.Eq(x, y)
	case Str:
		y := b.(Str)
		if x.Len() != y.Len() {
			return c.False
		}
		if x.B == nil && y.B == nil {
			return c.Bool(x.S == y.S)
		}
		xb, yb := c.StrBytes(x), c.StrBytes(y)
		r := c.True
		for i := range xb {
			r = c.And(r, c.Eq(xb[i], yb[i]))
		}
		return r
	case *Value:
		y, ok := b.(*Value)
		if !ok {
			return c.Bool(x == nil && isNil(b))
		}
		return c.Bool(x == y)
	case *Map:
		y, ok := b.(*Map)
		if !ok {
			return c.Bool(x == nil && isNil(b))
		}
		return c.Bool(x == y)
	case *Chan:
		y, ok := b.(*Chan)
		if !ok {
			return c.Bool(x == nil && isNil(b))
		}
		return c.Bool(x == y)
	case Slice, LSlice:
		return c.Bool(isNil(a) && isNil(b))
	case nil:
		return c.Bool(isNil(b))
	case *ssa.Function, *Closure, *ssa.Builtin:
		return c.Bool(isNil(a) && isNil(b))
	case Iface:
		y, ok := b.(Iface)
		if !ok {
			return c.Bool(x.T == nil && isNil(b))
		}
		if x.T == nil || y.T == nil {
			return c.Bool(x.T == nil && y.T == nil)
		}
		if !types.Identical(x.T, y.T) {
			return c.False
		}
		return m.equal(x.V, y.V)
	case RT:
		y, ok := b.(RT)
		return c.Bool(ok && types.Identical(x.T, y.T))
	case Struct:
		y := b.(Struct)
		r := c.True
		for i := range x {
			r = c.And(r, m.equal(x[i], y[i]))
		}
		return r
	case Array:
		y := b.(Array)
		r := c.True
		for i := range x {
			r = c.And(r, m.equal(x[i], y[i]))
		}
		return r
	}
	panic(fmt.Sprintf("equal: %T vs %T", a, b))
}
