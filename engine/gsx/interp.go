package gsx

import (
	"fmt"
	"go/token"
	"go/types"
	"strings"
	"sync"

	"golang.org/x/tools/go/ssa"
)

// Choice is one decision of a path prefix.
type Choice struct {
	I int    // alternative index
	V uint64 // value (for concretisation decisions)
}

// pathEnd is the host panic used to finish a path.
type pathEnd struct {
	Kind string // done, infeasible, panic, unsupported, unwind, steps, stop, deadlock
	Msg  string
}

type goAbort struct{}

type NdRec struct {
	Tag   string
	Kind  string // u8,u16,u32,u64,bool,bytes,int
	Terms []*Term
}

type fnInfo struct {
	idx map[ssa.Value]int
	n   int
}

type frame struct {
	fn     *ssa.Function
	regs   []Value
	info   *fnInfo
	env    []Value
	defers []deferred
	block  *ssa.BasicBlock
	prev   *ssa.BasicBlock
	visits map[int]int
	caller *frame
	callPos token.Pos
	result Value
}

type deferred struct {
	fn   Value
	args []Value
	call *ssa.CallCommon
}

// Machine executes one path at a time.
type Machine struct {
	P      *Program
	ctx    *Ctx
	solver *Solver

	pc       []*Term
	prefix   []Choice
	depth    int
	newWork  [][]Choice
	journal  []undo
	journalOn bool
	ndlog    []NdRec
	steps    int
	MaxSteps int
	Unwind   int // per-frame block visit bound
	MaxDepth int

	globals map[*ssa.Global]*Value
	infos   map[*ssa.Function]*fnInfo
	consts  map[*ssa.Const]Value

	// goroutines
	gs      []*G
	cur     *G
	nextGID int
	aborting bool

	// per-path side state
	syncs   map[*Value]*syncState
	frozen  map[*Value]string
	tcp     map[*Value]*tcpModel
	timers  []*simTimer
	clock   *Term
	observed []Obs
	reached map[string]bool
	allocBytes *Term
	inputLen   *Term

	// results of the current path
	viol     []*Violation
	incon    []string
	harness  string
	callDepth int
	curFrame *frame

	// hooks
	Intr map[string]Intrinsic

	Stats MachineStats

	concreteEnv *Env // when non-nil: replaying a model concretely
	PreemptBound int
	preempts int

	curPos      token.Pos
	allocBudget *Term
	fmtDepth    int
	fmtMemo     map[*Term]Str
	hornerOf    map[*Term]*Term
	lastWhat    string
	selMemo     map[*Term]*Term
	defEq       map[*Term]*Term
	rwMemo      map[*Term]*Term
	facts       map[*Term]ival
	factsLen    int
	ghost       map[string]Value
	timerOf     map[*Value]*simTimer
	gwg         sync.WaitGroup
	pendingEnd  interface{}
	opaqueAlloc bool
	uf          map[string][]ufApp
	crypto      *cryptoState
	divMemo     map[[2]*Term][2]*Term
	fmtOpaque   int
	timerRace   bool
	fixedClock  bool
	horizonNs   int64
	preemptOff  bool
	clockTick   uint64
	posCount    map[string]int
	entryCount  map[*ssa.Function]int
	syncSeq     int
	delays      []DelaySite
}

type MachineStats struct {
	Instrs    int64
	Branches  int64
	Forks     int64
	Cuts      int64
	Funcs     map[string]int
	ForkSites map[string]int
}

type Obs struct {
	Tag string
	Val string
}

type Intrinsic func(m *Machine, fr *frame, args []Value, call *ssa.CallCommon) Value

// Violation describes a failed obligation together with a model.
type Violation struct {
	Harness string
	Kind    string // panic:<what>, assert, alloc, deadlock, hang
	Msg     string
	Site    string // innermost repository function
	Pos     string
	Stack   []string
	Nd      []NdVal
	Definite bool
	PathCond []string
	Prefix  []Choice
	Preempts int // context switches forced by the explorer on this path (schedule-dependent violation if > 0)
	// Delays: where the native replay has to hold a goroutine back to follow the explored schedule
	Delays []DelaySite
}

// DelaySite: the Occ-th execution of the synchronisation operation at File:Line is delayed by Ms.
type DelaySite struct {
	File string `json:"file"`
	Line int    `json:"line"`
	Off  int    `json:"off,omitempty"` // byte offset of a function body's opening brace: the delay goes right after it (Line is then informative only)
	Occ  int    `json:"occ"`
	Ms   int    `json:"ms"`
}

type NdVal struct {
	Tag  string   `json:"tag"`
	Kind string   `json:"kind"`
	Vals []uint64 `json:"vals"`
}

func (m *Machine) info(fn *ssa.Function) *fnInfo {
	if fi, ok := m.infos[fn]; ok {
		return fi
	}
	fi := &fnInfo{idx: map[ssa.Value]int{}}
	add := func(v ssa.Value) {
		fi.idx[v] = fi.n
		fi.n++
	}
	for _, p := range fn.Params {
		add(p)
	}
	for _, fv := range fn.FreeVars {
		add(fv)
	}
	for _, b := range fn.Blocks {
		for _, in := range b.Instrs {
			if v, ok := in.(ssa.Value); ok {
				add(v)
			}
		}
	}
	m.infos[fn] = fi
	return fi
}

func (m *Machine) end(kind, msg string) {
	panic(pathEnd{kind, msg})
}

func (m *Machine) unsupported(format string, a ...interface{}) {
	m.end("unsupported", fmt.Sprintf(format, a...)+" @ "+m.where())
}

func (m *Machine) where() string {
	fr := m.curFrame
	if fr == nil {
		return "?"
	}
	var parts []string
	for f, n := fr, 0; f != nil && n < 6; f, n = f.caller, n+1 {
		parts = append(parts, f.fn.String())
	}
	return strings.Join(parts, " <- ")
}

// get returns the value of an SSA operand.
func (fr *frame) get(m *Machine, v ssa.Value) Value {
	switch v := v.(type) {
	case *ssa.Const:
		return m.constVal(v)
	case *ssa.Global:
		return m.global(v)
	case *ssa.Function:
		return v
	case *ssa.Builtin:
		return v
	}
	if i, ok := fr.info.idx[v]; ok {
		return fr.regs[i]
	}
	panic(fmt.Sprintf("get: no value for %T %v in %s", v, v.Name(), fr.fn))
}

func (fr *frame) set(v ssa.Value, x Value) {
	fr.regs[fr.info.idx[v]] = x
}

func (m *Machine) global(g *ssa.Global) *Value {
	if p, ok := m.globals[g]; ok {
		return p
	}
	cell := new(Value)
	*cell = m.zero(g.Type().(*types.Pointer).Elem())
	if g.Pkg != nil && g.Pkg.Pkg.Path() == "crypto/rand" && g.Name() == "Reader" {
		// crypto/rand is not initialised by the executor: rand.Reader is the package's reader, whose Read is an intrinsic
		if t := m.P.namedType("crypto/rand", "reader"); t != nil {
			rc := new(Value)
			*rc = m.zero(t)
			*cell = Iface{T: types.NewPointer(t), V: rc}
		}
	}
	m.globals[g] = cell
	return cell
}

func (m *Machine) constVal(c *ssa.Const) Value {
	if v, ok := m.consts[c]; ok {
		return v
	}
	v := m.constVal1(c)
	m.consts[c] = v
	return v
}

func (m *Machine) constVal1(c *ssa.Const) Value {
	if c.Value == nil {
		return m.zero(c.Type())
	}
	t := c.Type().Underlying()
	if b, ok := t.(*types.Basic); ok {
		switch {
		case b.Info()&types.IsBoolean != 0:
			return m.ctx.Bool(constantBool(c))
		case b.Info()&types.IsInteger != 0:
			w, _ := intWidth(b)
			return m.ctx.BV(uint64(c.Int64()), w)
		case b.Kind() == types.Float32:
			return m.ctx.F32(float32(c.Float64()))
		case b.Info()&types.IsFloat != 0:
			return m.ctx.F64(c.Float64())
		case b.Info()&types.IsString != 0:
			return Str{S: constantString(c)}
		}
	}
	if _, ok := t.(*types.Interface); ok {
		// a constant converted to an interface/type parameter
		panic("const of interface type")
	}
	panic(fmt.Sprintf("const: %v of %v", c, c.Type()))
}

// ---- calling ----

func (m *Machine) callValue(fr *frame, fv Value, args []Value, call *ssa.CallCommon) Value {
	switch f := fv.(type) {
	case *ssa.Function:
		if f == nil {
			m.goPanic("call of nil function")
		}
		return m.callFn(fr, f, args, nil, call)
	case *Closure:
		if f == nil {
			m.goPanic("call of nil function")
		}
		return m.callFn(fr, f.Fn, args, f.Env, call)
	case *ssa.Builtin:
		return m.builtin(fr, f, args, call)
	case *immediate:
		return f.v
	case nil:
		m.goPanic("nil func call")
	}
	panic(fmt.Sprintf("callValue: %T", fv))
}

func (m *Machine) callFn(caller *frame, fn *ssa.Function, args []Value, env []Value, call *ssa.CallCommon) Value {
	name := fn.String()
	if in, ok := m.Intr[name]; ok {
		return in(m, caller, args, call)
	}
	if strings.HasPrefix(fn.Name(), "vf") {
		if in, ok := m.Intr[fn.Name()]; ok {
			return in(m, caller, args, call)
		}
	}
	if fn.Synthetic == "package initializer" && !m.P.shouldInit(fn.Pkg.Pkg.Path()) {
		return nil
	}
	if fn.Pkg != nil && m.P.StubPkgs[fn.Pkg.Pkg.Path()] {
		return m.zeroResult(fn.Signature)
	}
	if fn.Origin() != nil {
		if in, ok := m.Intr[fn.Origin().String()]; ok {
			return in(m, caller, args, call)
		}
	}
	if fn.Blocks == nil {
		if fn.Synthetic == "" || true {
			m.unsupported("no body: %s", name)
		}
	}
	if m.callDepth > m.MaxDepth {
		m.end("unwind", "recursion depth exceeded at "+name)
	}
	if m.Stats.Funcs != nil {
		m.Stats.Funcs[name]++
	}
	info := m.info(fn)
	m.noteEntry(fn)
	fr := &frame{fn: fn, info: info, regs: make([]Value, info.n), env: env, caller: caller, callPos: m.curPos}
	for i, p := range fn.Params {
		fr.regs[info.idx[p]] = args[i]
	}
	for i, fv := range fn.FreeVars {
		fr.regs[info.idx[fv]] = env[i]
	}
	m.callDepth++
	saved := m.curFrame
	m.curFrame = fr
	m.run(fr)
	m.curFrame = saved
	m.callDepth--
	return fr.result
}

func (m *Machine) run(fr *frame) {
	fr.block = fr.fn.Blocks[0]
	for {
		if fr.visits == nil {
			fr.visits = map[int]int{}
		}
		fr.visits[fr.block.Index]++
		if fr.visits[fr.block.Index] > m.Unwind {
			// candidate non-termination: reported with a model and confirmed (or not) by the native replay's time limit
			m.report("hang", fmt.Sprintf("loop in %s exceeds %d iterations (possible non-termination)", fr.fn, m.Unwind), true)
			m.end("unwind", fmt.Sprintf("block %d of %s visited more than %d times", fr.block.Index, fr.fn, m.Unwind))
		}
	instrs:
		for _, in := range fr.block.Instrs {
			m.steps++
			if m.steps > m.MaxSteps {
				m.end("steps", "step limit @ "+m.where())
			}
			switch m.exec(fr, in) {
			case kJump:
				break instrs
			case kReturn:
				return
			}
		}
	}
}

const (
	kNext = iota
	kJump
	kReturn
)

func (m *Machine) exec(fr *frame, in ssa.Instruction) int {
	m.Stats.Instrs++
	switch in := in.(type) {
	case *ssa.DebugRef:
	case *ssa.UnOp:
		fr.set(in, m.unop(fr, in))
	case *ssa.BinOp:
		fr.set(in, m.binop(in.Op, in.X.Type(), fr.get(m, in.X), fr.get(m, in.Y), in.Y.Type()))
	case *ssa.Call:
		fn, args := m.prepareCall(fr, &in.Call)
		m.curPos = in.Pos()
		fr.set(in, m.callValue(fr, fn, args, &in.Call))
	case *ssa.ChangeInterface:
		fr.set(in, fr.get(m, in.X))
	case *ssa.ChangeType:
		fr.set(in, fr.get(m, in.X))
	case *ssa.Convert:
		fr.set(in, m.conv(in.Type(), in.X.Type(), fr.get(m, in.X)))
	case *ssa.MultiConvert:
		fr.set(in, m.conv(in.Type(), in.X.Type(), fr.get(m, in.X)))
	case *ssa.SliceToArrayPointer:
		sl := fr.get(m, in.X).(Slice)
		n := int(in.Type().Underlying().(*types.Pointer).Elem().Underlying().(*types.Array).Len())
		if len(sl.V) < n {
			m.goPanic("slice to array pointer: length too short")
		}
		if sl.V == nil {
			fr.set(in, (*Value)(nil))
		} else {
			cell := new(Value)
			*cell = Array(sl.V[:n:n])
			fr.set(in, cell)
		}
	case *ssa.MakeInterface:
		fr.set(in, Iface{T: in.X.Type(), V: fr.get(m, in.X)})
	case *ssa.Extract:
		fr.set(in, fr.get(m, in.Tuple).(Tuple)[in.Index])
	case *ssa.Slice:
		fr.set(in, m.sliceOp(fr, in))
	case *ssa.Return:
		switch len(in.Results) {
		case 0:
		case 1:
			fr.result = fr.get(m, in.Results[0])
		default:
			t := make(Tuple, len(in.Results))
			for i, r := range in.Results {
				t[i] = fr.get(m, r)
			}
			fr.result = t
		}
		return kReturn
	case *ssa.RunDefers:
		m.runDefers(fr)
	case *ssa.Panic:
		v := fr.get(m, in.X)
		m.goPanicValue(v)
	case *ssa.Send:
		m.chanSend(fr.get(m, in.Chan), fr.get(m, in.X))
	case *ssa.Store:
		if r, ok := fr.get(m, in.Addr).(*SymRef); ok {
			m.storeRef(r, fr.get(m, in.Val))
			break
		}
		p := m.asPtr(fr.get(m, in.Addr), "store")
		if p == nil {
			m.goPanic("nil pointer dereference (store)")
		}
		m.store(p, fr.get(m, in.Val))
	case *ssa.If:
		cond := fr.get(m, in.Cond).(*Term)
		succ := 1
		if m.branch(cond) {
			succ = 0
		}
		fr.prev, fr.block = fr.block, fr.block.Succs[succ]
		return kJump
	case *ssa.Jump:
		fr.prev, fr.block = fr.block, fr.block.Succs[0]
		return kJump
	case *ssa.Defer:
		fn, args := m.prepareCall(fr, &in.Call)
		fr.defers = append(fr.defers, deferred{fn: fn, args: args, call: &in.Call})
	case *ssa.Go:
		fn, args := m.prepareCall(fr, &in.Call)
		m.spawn(fn, args, &in.Call)
	case *ssa.MakeChan:
		sz := m.concreteInt(fr.get(m, in.Size).(*Term), "chan size")
		m.nextGID++
		fr.set(in, &Chan{Cap: int(sz), ET: in.Type().Underlying().(*types.Chan).Elem(), ID: m.nextGID})
	case *ssa.Alloc:
		cell := new(Value)
		*cell = m.zero(in.Type().Underlying().(*types.Pointer).Elem())
		fr.set(in, cell)
	case *ssa.MakeSlice:
		fr.set(in, m.makeSlice(fr, in))
	case *ssa.MakeMap:
		mt := in.Type().Underlying().(*types.Map)
		fr.set(in, &Map{KT: mt.Key(), VT: mt.Elem()})
	case *ssa.Range:
		fr.set(in, m.rangeIter(fr.get(m, in.X), in.X.Type()))
	case *ssa.Next:
		fr.set(in, m.next(fr.get(m, in.Iter).(*iter), in))
	case *ssa.FieldAddr:
		p := m.asPtr(fr.get(m, in.X), "fieldaddr")
		if p == nil {
			m.goPanic("nil pointer dereference (field " + in.X.Type().Underlying().(*types.Pointer).Elem().Underlying().(*types.Struct).Field(in.Field).Name() + ")")
		}
		fr.set(in, &(*p).(Struct)[in.Field])
	case *ssa.Field:
		fr.set(in, copyVal(fr.get(m, in.X).(Struct)[in.Field]))
	case *ssa.IndexAddr:
		fr.set(in, m.indexAddr(fr, in))
	case *ssa.Index:
		fr.set(in, m.indexOp(fr, in))
	case *ssa.Lookup:
		fr.set(in, m.lookup(fr, in))
	case *ssa.MapUpdate:
		mp, _ := fr.get(m, in.Map).(*Map)
		m.mapSet(mp, fr.get(m, in.Key), fr.get(m, in.Value))
	case *ssa.TypeAssert:
		fr.set(in, m.typeAssert(fr.get(m, in.X), in))
	case *ssa.MakeClosure:
		var env []Value
		for _, b := range in.Bindings {
			env = append(env, fr.get(m, b))
		}
		fr.set(in, &Closure{Fn: in.Fn.(*ssa.Function), Env: env})
	case *ssa.Phi:
		for i, pred := range in.Block().Preds {
			if fr.prev == pred {
				fr.set(in, fr.get(m, in.Edges[i]))
				break
			}
		}
	case *ssa.Select:
		fr.set(in, m.selectOp(fr, in))
	default:
		m.unsupported("instruction %T", in)
	}
	return kNext
}

func (m *Machine) prepareCall(fr *frame, call *ssa.CallCommon) (Value, []Value) {
	var args []Value
	var fn Value
	if call.Method == nil {
		fn = fr.get(m, call.Value)
	} else {
		recv := fr.get(m, call.Value).(Iface)
		if recv.T == nil {
			m.goPanic("method call on nil interface: " + call.Method.Name())
		}
		if rt, ok := recv.V.(RT); ok {
			fn = &rtMethod{name: call.Method.Name(), rt: rt}
		} else {
			f := m.P.lookupMethod(recv.T, call.Method)
			if f == nil {
				m.unsupported("no method %s on %s", call.Method.Name(), recv.T)
			}
			fn = f
			args = append(args, recv.V)
		}
	}
	for _, a := range call.Args {
		args = append(args, fr.get(m, a))
	}
	if rm, ok := fn.(*rtMethod); ok {
		res := m.reflectTypeMethod(rm.rt, rm.name, args)
		return &immediate{res}, nil
	}
	return fn, args
}

type rtMethod struct {
	name string
	rt   RT
}
type immediate struct{ v Value }

func (m *Machine) runDefers(fr *frame) {
	for len(fr.defers) > 0 {
		d := fr.defers[len(fr.defers)-1]
		fr.defers = fr.defers[:len(fr.defers)-1]
		m.callValue(fr, d.fn, d.args, d.call)
	}
}

// ---- panics of the interpreted program ----

func (m *Machine) goPanic(msg string) {
	// reaching here means the panic is definite on this (feasible) path
	m.report("panic", msg, true)
	m.end("panic", msg)
}

func (m *Machine) goPanicValue(v Value) {
	msg := "panic()"
	if i, ok := v.(Iface); ok {
		if s, ok := i.V.(Str); ok && s.B == nil {
			msg = "panic: " + s.S
		} else if i.T != nil {
			msg = "panic: value of type " + i.T.String()
			if p, ok := i.V.(*Value); ok && p != nil {
				if st, ok := (*p).(Struct); ok && len(st) > 0 {
					if s, ok := st[0].(Str); ok && s.B == nil {
						msg += ": " + s.S
					}
				}
			}
		}
	}
	m.goPanic(msg)
}

// require emits an obligation: ok must hold on every input reaching here.
func (m *Machine) require(ok *Term, kind, msg string) {
	if ok.IsTrue() {
		return
	}
	if ok.IsFalse() {
		m.report(kind, msg, true)
		m.end("panic", msg)
	}
	if m.concreteEnv != nil {
		if m.ctx.Eval(ok, m.concreteEnv) == 0 {
			m.report(kind, msg, true)
			m.end("panic", msg)
		}
		m.pc = append(m.pc, ok)
		return
	}
	m.Stats.Branches++
	if len(m.defEq) > 0 {
		ok = m.rewrite(ok)
		if ok.IsTrue() {
			return
		}
	}
	if v, dec := m.decide(ok); dec && v {
		return
	}
	bad := m.ctx.Not(ok)
	m.lastWhat = kind + ": " + msg
	if m.solver.OnSlow != nil {
		m.lastWhat += " TERM " + ok.String()
	}
	switch m.solver.Check(m.pc, bad) {
	case Sat:
		m.shrinkModel(bad)
		m.reportModel(kind, msg, false)
		// is the good side feasible at all?
		switch m.solver.Check(m.pc, ok) {
		case Unsat:
			m.end("panic", msg)
		case Unknown:
			m.incon = append(m.incon, "solver unknown (feasibility after "+kind+") @ "+m.where())
		}
	case Unknown:
		m.incon = append(m.incon, "solver unknown ("+kind+": "+msg+") @ "+m.where())
	}
	m.pc = append(m.pc, ok)
}

// branch decides a symbolic condition, forking when both sides are feasible.
func (m *Machine) branch(cond *Term) bool {
	if cond.IsConst() {
		return cond.C == 1
	}
	if m.concreteEnv != nil {
		r := m.ctx.Eval(cond, m.concreteEnv) == 1
		if r {
			m.pc = append(m.pc, cond)
		} else {
			m.pc = append(m.pc, m.ctx.Not(cond))
		}
		return r
	}
	m.Stats.Branches++
	if len(m.defEq) > 0 {
		cond = m.rewrite(cond)
		if cond.IsConst() {
			return cond.C == 1
		}
	}
	ncond := m.ctx.Not(cond)
	k := m.depth
	m.depth++
	if k < len(m.prefix) {
		if m.prefix[k].I == 0 {
			m.pc = append(m.pc, cond)
			return true
		}
		m.pc = append(m.pc, ncond)
		return false
	}
	// quick syntactic check against the path condition
	for _, p := range m.pc {
		if p == cond {
			m.prefix = append(m.prefix, Choice{I: 0})
			return true
		}
		if p == ncond {
			m.prefix = append(m.prefix, Choice{I: 1})
			return false
		}
	}
	if v, ok := m.decide(cond); ok {
		if v {
			m.prefix = append(m.prefix, Choice{I: 0})
			m.pc = append(m.pc, cond)
			return true
		}
		m.prefix = append(m.prefix, Choice{I: 1})
		m.pc = append(m.pc, ncond)
		return false
	}
	rt := m.solver.Check(m.pc, cond)
	if rt == Unsat {
		m.prefix = append(m.prefix, Choice{I: 1})
		m.pc = append(m.pc, ncond)
		return false
	}
	if rt == Unknown {
		m.incon = append(m.incon, "solver unknown (branch) @ "+m.where())
	}
	rf := m.solver.Check(m.pc, ncond)
	if rf == Unknown {
		m.incon = append(m.incon, "solver unknown (branch) @ "+m.where())
	}
	if rf != Unsat {
		alt := append(append([]Choice{}, m.prefix...), Choice{I: 1})
		m.newWork = append(m.newWork, alt)
		m.Stats.Forks++
		m.forkSite("branch")
	}
	m.prefix = append(m.prefix, Choice{I: 0})
	m.pc = append(m.pc, cond)
	return true
}

// choose picks among n unconstrained alternatives (scheduling, select).
func (m *Machine) choose(n int, what string) int {
	if n <= 1 {
		return 0
	}
	if m.concreteEnv != nil {
		k := m.depth
		m.depth++
		if k < len(m.prefix) {
			return m.prefix[k].I
		}
		return 0
	}
	k := m.depth
	m.depth++
	if k < len(m.prefix) {
		return m.prefix[k].I
	}
	for i := 1; i < n; i++ {
		alt := append(append([]Choice{}, m.prefix...), Choice{I: i})
		m.newWork = append(m.newWork, alt)
		m.Stats.Forks++
		m.forkSite("choose:" + what)
	}
	m.prefix = append(m.prefix, Choice{I: 0})
	return 0
}

// assume adds a constraint; ends the path if it is infeasible.
func (m *Machine) assume(c *Term) {
	c = m.rewrite(c)
	if c.IsTrue() {
		return
	}
	if c.IsFalse() {
		m.end("infeasible", "assume(false)")
	}
	if m.concreteEnv != nil {
		if m.ctx.Eval(c, m.concreteEnv) == 0 {
			m.end("infeasible", "assume fails under model")
		}
		m.pc = append(m.pc, c)
		return
	}
	switch m.solver.Check(m.pc, c) {
	case Unsat:
		m.end("infeasible", "assumption unsatisfiable")
	case Unknown:
		m.incon = append(m.incon, "solver unknown (assume) @ "+m.where())
	}
	m.pc = append(m.pc, c)
}

// concretize forks over the feasible values of t.
func (m *Machine) concretize(t *Term, what string) uint64 {
	t = m.rewrite(t)
	if t.IsConst() {
		return t.C
	}
	if m.concreteEnv != nil {
		v := m.ctx.Eval(t, m.concreteEnv)
		m.pc = append(m.pc, m.ctx.Eq(t, m.ctx.BV(v, int(t.W))))
		return v
	}
	for n := 0; ; n++ {
		if n > m.P.MaxConcretize {
			m.end("unwind", "too many values for "+what+" @ "+m.where())
		}
		k := m.depth
		m.depth++
		var ch Choice
		if k < len(m.prefix) {
			ch = m.prefix[k]
		} else {
			m.solver.Define(t)
			r := m.solver.Check(m.pc, m.ctx.True)
			if r != Sat {
				if r == Unknown {
					m.incon = append(m.incon, "solver unknown (concretize) @ "+m.where())
				}
				m.end("infeasible", "concretize: path condition not sat")
			}
			vals, err := m.solver.Values([]*Term{t})
			if err != nil {
				m.incon = append(m.incon, "model error: "+err.Error())
				m.end("infeasible", "model")
			}
			v := vals[t.ID]
			ch = Choice{I: 0, V: v}
			ne := m.ctx.Not(m.ctx.Eq(t, m.ctx.BV(v, int(t.W))))
			if r2 := m.solver.Check(m.pc, ne); r2 != Unsat {
				if r2 == Unknown {
					m.incon = append(m.incon, "solver unknown (concretize) @ "+m.where())
				}
				alt := append(append([]Choice{}, m.prefix...), Choice{I: 1, V: v})
				m.newWork = append(m.newWork, alt)
				m.Stats.Forks++
				m.forkSite("concretize:" + what)
			}
			m.prefix = append(m.prefix, ch)
		}
		eq := m.ctx.Eq(t, m.ctx.BV(ch.V, int(t.W)))
		if ch.I == 0 {
			m.pc = append(m.pc, eq)
			m.learnEq(t, ch.V)
			return ch.V
		}
		m.pc = append(m.pc, m.ctx.Not(eq))
	}
}

func (m *Machine) concreteInt(t *Term, what string) int64 {
	return sext(m.concretize(t, what), t.W)
}

func constantBool(c *ssa.Const) bool {
	return c.Value.String() == "true"
}

func (m *Machine) forkSite(kind string) {
	if m.Stats.ForkSites == nil {
		return
	}
	fr := m.curFrame
	w := "?"
	if fr != nil {
		w = fr.fn.String()
		if fr.caller != nil {
			w += " <- " + fr.caller.fn.String()
		}
	}
	m.Stats.ForkSites[kind+" @ "+w]++
}

// shrinkModel re-asks the (already sat) query with the wide nd integers bounded, so
// that counterexamples replay with small buffers; the last sat model stays current.
func (m *Machine) shrinkModel(bad *Term) {
	c := m.ctx
	var wide []*Term
	for _, r := range m.ndlog {
		if r.Kind == "int" || r.Kind == "u32" || r.Kind == "u64" {
			for _, t := range r.Terms {
				t = m.rewrite(t)
				if !t.IsConst() && t.S == SBV && t.W >= 32 {
					wide = append(wide, t)
				}
			}
		}
	}
	if len(wide) == 0 {
		return
	}
	for _, lim := range []uint64{1 << 16, 1 << 24} {
		small := c.True
		for _, t := range wide {
			small = c.And(small, c.Cmp(OULt, t, c.BV(lim, int(t.W))))
		}
		if m.solver.Check(m.pc, bad, small) == Sat {
			return
		}
	}
	m.solver.Check(m.pc, bad)
}
