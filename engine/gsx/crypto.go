package gsx

import (
	"fmt"
	"go/types"
	"strings"

	"golang.org/x/tools/go/ssa"
)

// Cryptographic primitives are modelled as *ideal* functions (see DESIGN §2.5):
//
//   hash / HMAC        uninterpreted functions by Ackermann's reduction: fresh output
//                      bytes, and for every earlier application of the same function on
//                      an input of the same length  (in = in') -> (out = out')  is added
//                      to the path condition.  With vfCryptoInjective(true) also
//                      (out = out') -> (in = in')  (collision resistance, used by C14).
//   AES-CBC            a pair E/D of such functions per (key, iv) with D(E(x)) = x and
//                      E(D(y)) = y; length preserving; Go's documented panics on
//                      non-block-multiple input and short output.
//   RSA OAEP / PKCS1   Go's documented length limits (k-2h-2, k-11), k bytes out,
//                      randomised encryption; decryption returns the plaintext iff the
//                      ciphertext equals one produced for the same key, else ErrDecryption.
//   RSA signatures     k bytes; verification succeeds iff (digest, signature) equals a
//                      pair produced by Sign under the same key (ideal unforgeability).
//
// Operands of symbolic *length* (LSlice) give length-only behaviour.

type ufApp struct {
	in, out []*Term
	verif   bool // computed while verifying (inside a Verify function), not by a signer
}

type hashState struct {
	alg    string // sha1, sha256
	size   int
	hmac   bool
	key    []*Term
	data   []*Term
	opaque bool
}

type cbcState struct {
	key, iv []*Term
	enc     bool
}

type rsaKey struct {
	id   int
	size *Term // bytes
}

type cryptoState struct {
	hashes map[*Value]*hashState
	cbcs   map[*Value]*cbcState
	ciphers map[*Value][]*Term
	keys   map[*Value]*rsaKey
	nkeys  int
	encs   []rsaEnc
	sigs   []rsaSig
	certs  []certRec
	inj    bool
}

type rsaEnc struct {
	key    int
	scheme string
	pt, ct []*Term
}

type rsaSig struct {
	key    int
	scheme string
	dg, sg []*Term
}

type certRec struct {
	der    []*Term
	pub    *Value
	nonRSA bool
}

func (m *Machine) cs() *cryptoState {
	if m.crypto == nil {
		m.crypto = &cryptoState{hashes: map[*Value]*hashState{}, cbcs: map[*Value]*cbcState{}, ciphers: map[*Value][]*Term{}, keys: map[*Value]*rsaKey{}}
	}
	return m.crypto
}

func termsEqual(c *Ctx, a, b []*Term) *Term {
	if len(a) != len(b) {
		return c.False
	}
	r := c.True
	for i := range a {
		if a[i] == b[i] {
			continue
		}
		if a[i].IsConst() && b[i].IsConst() {
			return c.False
		}
		r = c.And(r, c.Eq(a[i], b[i]))
	}
	return r
}

func sameTerms(a, b []*Term) bool {
	if len(a) != len(b) {
		return false
	}
	for i := range a {
		if a[i] != b[i] {
			return false
		}
	}
	return true
}

// ufApply applies the uninterpreted function name to in, yielding outLen bytes.
func (m *Machine) ufApply(name string, in []*Term, outLen int) []*Term {
	c := m.ctx
	if m.uf == nil {
		m.uf = map[string][]ufApp{}
	}
	key := fmt.Sprintf("%s/%d/%d", name, len(in), outLen)
	verif := m.inVerify()
	for i, a := range m.uf[key] {
		if sameTerms(a.in, in) {
			if !verif {
				m.uf[key][i].verif = false
			}
			return a.out
		}
	}
	out := make([]*Term, outLen)
	for i := range out {
		out[i] = c.Fresh("uf."+name, SBV, 8)
	}
	if m.cs().inj {
		// inputs of another length are distinct inputs
		pre := fmt.Sprintf("%s/", name)
		suf := fmt.Sprintf("/%d", outLen)
		for k2, apps := range m.uf {
			if k2 == key || !strings.HasPrefix(k2, pre) || !strings.HasSuffix(k2, suf) || strings.Count(k2, "/") != strings.Count(key, "/") {
				continue
			}
			for _, a := range apps {
				m.pc = append(m.pc, c.Not(termsEqual(c, a.out, out)))
			}
		}
	}
	for _, a := range m.uf[key] {
		ein := termsEqual(c, a.in, in)
		if ein.IsFalse() {
			if m.cs().inj {
				// distinct inputs => distinct outputs
				m.pc = append(m.pc, c.Not(termsEqual(c, a.out, out)))
			}
			continue
		}
		eout := termsEqual(c, a.out, out)
		m.pc = append(m.pc, c.Or(c.Not(ein), eout))
		if m.cs().inj {
			m.pc = append(m.pc, c.Or(c.Not(eout), ein))
		}
	}
	m.uf[key] = append(m.uf[key], ufApp{in: in, out: out, verif: verif})
	return out
}

// inVerify reports whether the interpreted program is currently inside a signature
// verification routine (a method named Verify): MAC values computed there are
// recomputations by the verifier, not tags issued by a key holder.
func (m *Machine) inVerify() bool {
	for f := m.curFrame; f != nil; f = f.caller {
		if f.fn.Name() == "Verify" {
			return true
		}
	}
	return false
}

// isGarbage: bytes produced by decrypting something that is not (syntactically) a
// ciphertext made with the same key — modelled as unrelated to any authentic data.
func isGarbage(ts []*Term) bool {
	for _, t := range ts {
		if t.Op == OVar && strings.HasPrefix(t.Name, "uf.aescbc-D") {
			return true
		}
	}
	return false
}

// macEqual is hmac.Equal under the ideal-MAC assumption: a tag recomputed by a verifier
// equals the presented tag only if a key holder issued that tag for the same input.
func (m *Machine) macEqual(x, y []*Term) *Term {
	c := m.ctx
	if sameTerms(x, y) {
		return c.True
	}
	if len(x) != len(y) {
		return c.False
	}
	find := func(ts []*Term) (string, *ufApp) {
		if len(ts) == 0 {
			return "", nil
		}
		for k, apps := range m.uf {
			if !strings.HasPrefix(k, "hmac-") {
				continue
			}
			for i := range apps {
				if sameTerms(apps[i].out, ts) {
					return k, &apps[i]
				}
			}
		}
		return "", nil
	}
	kx, ax := find(x)
	ky, ay := find(y)
	if ax == nil && ay != nil {
		x, y, kx, ax, ay = y, x, ky, ay, nil
	}
	if ax == nil || !ax.verif {
		// not a verifier-side recomputation: plain comparison
		return termsEqual(c, x, y)
	}
	_ = ay
	if isGarbage(y) {
		return c.False
	}
	r := c.False
	for _, l := range m.uf[kx] {
		if l.verif {
			continue
		}
		r = c.Or(r, c.And(termsEqual(c, l.in, ax.in), termsEqual(c, l.out, y)))
	}
	return r
}

// ufInverse links an application f(in)=out with the inverse function g: g(out)=in.
func (m *Machine) ufLinkInverse(gname string, in, out []*Term) {
	c := m.ctx
	key := fmt.Sprintf("%s/%d/%d", gname, len(out), len(in))
	for _, a := range m.uf[key] {
		if sameTerms(a.in, out) {
			m.pc = append(m.pc, termsEqual(c, a.out, in))
			continue
		}
		e := termsEqual(c, a.in, out)
		if e.IsFalse() {
			continue
		}
		m.pc = append(m.pc, c.Or(c.Not(e), termsEqual(c, a.out, in)))
	}
}

func bytesOf(m *Machine, v Value) ([]*Term, bool) {
	switch x := v.(type) {
	case Slice:
		out := make([]*Term, len(x.V))
		for i, e := range x.V {
			out[i] = e.(*Term)
		}
		return out, true
	case Str:
		return m.ctx.StrBytes(x), true
	case LSlice:
		return nil, false
	}
	m.unsupported("bytesOf %T", v)
	return nil, false
}

func termSlice(ts []*Term) Slice {
	out := make([]Value, len(ts))
	for i, t := range ts {
		out[i] = t
	}
	return Slice{V: out}
}

func (m *Machine) namedPtr(pkg, name string) types.Type {
	t := m.P.namedType(pkg, name)
	if t == nil {
		m.unsupported("type %s.%s not loaded", pkg, name)
	}
	return types.NewPointer(t)
}

func (m *Machine) newHash(alg string) Value {
	var pkg string
	size := 0
	switch alg {
	case "sha1":
		pkg, size = "crypto/sha1", 20
	case "sha256":
		pkg, size = "crypto/sha256", 32
	default:
		m.unsupported("hash %s", alg)
	}
	cell := new(Value)
	*cell = Struct{}
	m.cs().hashes[cell] = &hashState{alg: alg, size: size}
	return Iface{T: m.namedPtr(pkg, "digest"), V: cell}
}

func (m *Machine) hashOf(v Value) *hashState {
	p, _ := v.(*Value)
	h := m.cs().hashes[p]
	if h == nil {
		m.unsupported("unmodelled hash object")
	}
	return h
}

func (m *Machine) cryptoErr(pkg, name string) Value {
	pk := m.P.FindPkg(pkg)
	if pk != nil {
		if g := pk.Var(name); g != nil {
			v := m.load(m.global(g))
			if iv, ok := v.(Iface); ok && iv.T != nil {
				return iv
			}
		}
	}
	return m.newError(Str{S: pkg + ": " + name}, Iface{})
}

func (m *Machine) rsaKeyOf(v Value, what string) *rsaKey {
	p, _ := v.(*Value)
	if p == nil {
		m.goPanic("nil pointer dereference (" + what + ": nil RSA key)")
	}
	k := m.cs().keys[p]
	if k == nil {
		m.unsupported("%s: RSA key not created by vfRSAKey", what)
	}
	return k
}

func registerCrypto(m *Machine) {
	I := m.Intr
	c := m.ctx

	I["vfCryptoInjective"] = func(m *Machine, fr *frame, a []Value, _ *ssa.CallCommon) Value {
		m.cs().inj = a[0].(*Term).IsTrue()
		return nil
	}
	// vfRSAKey(tag, sizeBytes) *rsa.PrivateKey
	I["vfRSAKey"] = func(m *Machine, fr *frame, a []Value, _ *ssa.CallCommon) Value {
		t := m.P.namedType("crypto/rsa", "PrivateKey")
		cell := new(Value)
		*cell = m.zero(t)
		cs := m.cs()
		cs.nkeys++
		k := &rsaKey{id: cs.nkeys, size: a[1].(*Term)}
		cs.keys[cell] = k
		cs.keys[&(*cell).(Struct)[0]] = k
		return cell
	}
	// vfCert(tag, key) []byte: DER bytes of a certificate for key's public half.
	I["vfCert"] = func(m *Machine, fr *frame, a []Value, _ *ssa.CallCommon) Value {
		priv := a[1].(*Value)
		k := m.rsaKeyOf(priv, "vfCert")
		der := []*Term{}
		for _, b := range []byte(fmt.Sprintf("CERT#%d#%s", k.id, m.concStr(a[0], "tag"))) {
			der = append(der, c.BV(uint64(b), 8))
		}
		m.cs().certs = append(m.cs().certs, certRec{der: der, pub: &(*priv).(Struct)[0]})
		return termSlice(der)
	}
	// vfCertNonRSA(tag) []byte: DER bytes of a well-formed certificate whose public key is not RSA (ECDSA).
	I["vfCertNonRSA"] = func(m *Machine, fr *frame, a []Value, _ *ssa.CallCommon) Value {
		der := []*Term{}
		for _, b := range []byte("CERT#ecdsa#" + m.concStr(a[0], "tag")) {
			der = append(der, c.BV(uint64(b), 8))
		}
		m.cs().certs = append(m.cs().certs, certRec{der: der, nonRSA: true})
		return termSlice(der)
	}
	I["(*crypto/rsa.PublicKey).Size"] = func(m *Machine, fr *frame, a []Value, _ *ssa.CallCommon) Value {
		return m.rsaKeyOf(a[0], "PublicKey.Size").size
	}
	I["(*crypto/rsa.PrivateKey).Size"] = I["(*crypto/rsa.PublicKey).Size"]
	I["(*crypto/rsa.PrivateKey).Public"] = func(m *Machine, fr *frame, a []Value, _ *ssa.CallCommon) Value {
		p := a[0].(*Value)
		return Iface{T: m.namedPtr("crypto/rsa", "PublicKey"), V: &(*p).(Struct)[0]}
	}

	// ---- hashes ----
	I["(crypto.Hash).New"] = func(m *Machine, fr *frame, a []Value, _ *ssa.CallCommon) Value {
		switch m.concretize(a[0].(*Term), "crypto.Hash") {
		case 3:
			return m.newHash("sha1")
		case 5:
			return m.newHash("sha256")
		}
		m.goPanic("crypto: requested hash function is unavailable")
		return nil
	}
	I["(crypto.Hash).Size"] = func(m *Machine, fr *frame, a []Value, _ *ssa.CallCommon) Value {
		switch m.concretize(a[0].(*Term), "crypto.Hash") {
		case 3:
			return c.BV(20, 64)
		case 5:
			return c.BV(32, 64)
		}
		m.goPanic("crypto: Size of unknown hash function")
		return nil
	}
	I["crypto/sha1.New"] = func(m *Machine, fr *frame, a []Value, _ *ssa.CallCommon) Value { return m.newHash("sha1") }
	I["crypto/sha256.New"] = func(m *Machine, fr *frame, a []Value, _ *ssa.CallCommon) Value { return m.newHash("sha256") }
	I["crypto/sha1.Sum"] = func(m *Machine, fr *frame, a []Value, _ *ssa.CallCommon) Value {
		in, ok := bytesOf(m, a[0])
		var out []*Term
		if ok {
			out = m.ufApply("sha1", in, 20)
		} else {
			out = m.freshBytes("env:sha1.opaque", 20)
		}
		arr := make(Array, 20)
		for i := range arr {
			arr[i] = out[i]
		}
		return arr
	}
	hashWrite := func(m *Machine, fr *frame, a []Value, _ *ssa.CallCommon) Value {
		h := m.hashOf(a[0])
		bs, ok := bytesOf(m, a[1])
		if !ok {
			h.opaque = true
		} else {
			h.data = append(append([]*Term{}, h.data...), bs...)
		}
		return Tuple{m.lenOf(a[1]), Iface{}}
	}
	hashSum := func(m *Machine, fr *frame, a []Value, call *ssa.CallCommon) Value {
		h := m.hashOf(a[0])
		var out []*Term
		switch {
		case h.opaque:
			out = make([]*Term, h.size)
			for i := range out {
				out[i] = c.Fresh("hash.opaque", SBV, 8)
			}
		case h.hmac:
			in := append(append([]*Term{}, h.key...), h.data...)
			out = m.ufApply(fmt.Sprintf("hmac-%s-k%d", h.alg, len(h.key)), in, h.size)
		default:
			out = m.ufApply(h.alg, h.data, h.size)
		}
		// Sum(b) is append(b, digest...): when b has spare capacity the digest is written into
		// b's backing array (and over whatever another slice of that array holds there)
		if s, ok := a[1].(Slice); ok && (len(s.V) > 0 || cap(s.V) > 0) {
			n := len(s.V)
			if n+len(out) <= cap(s.V) {
				res := s.V[:n+len(out)]
				for i, t := range out {
					m.store(&res[n+i], t)
				}
				return Slice{V: res}
			}
			res := make([]Value, 0, n+len(out))
			for _, v := range s.V {
				res = append(res, copyVal(v))
			}
			for _, t := range out {
				res = append(res, t)
			}
			return Slice{V: res}
		}
		return termSlice(out)
	}
	hashReset := func(m *Machine, fr *frame, a []Value, _ *ssa.CallCommon) Value {
		h := m.hashOf(a[0])
		h.data = nil
		h.opaque = false
		return nil
	}
	hashSize := func(m *Machine, fr *frame, a []Value, _ *ssa.CallCommon) Value {
		return c.BV(uint64(m.hashOf(a[0]).size), 64)
	}
	hashBlock := func(m *Machine, fr *frame, a []Value, _ *ssa.CallCommon) Value { return c.BV(64, 64) }
	for _, t := range []string{"(*crypto/sha1.digest)", "(*crypto/sha256.digest)", "(*crypto/hmac.hmac)"} {
		I[t+".Write"] = hashWrite
		I[t+".Sum"] = hashSum
		I[t+".Reset"] = hashReset
		I[t+".Size"] = hashSize
		I[t+".BlockSize"] = hashBlock
	}
	I["crypto/hmac.New"] = func(m *Machine, fr *frame, a []Value, call *ssa.CallCommon) Value {
		inner := m.callValue(fr, a[0], nil, nil)
		ih := m.hashOf(inner.(Iface).V)
		key, ok := bytesOf(m, a[1])
		cell := new(Value)
		*cell = Struct{}
		m.cs().hashes[cell] = &hashState{alg: ih.alg, size: ih.size, hmac: true, key: key, opaque: !ok}
		return Iface{T: m.namedPtr("crypto/hmac", "hmac"), V: cell}
	}
	I["crypto/hmac.Equal"] = func(m *Machine, fr *frame, a []Value, _ *ssa.CallCommon) Value {
		x, ok1 := bytesOf(m, a[0])
		y, ok2 := bytesOf(m, a[1])
		if !ok1 || !ok2 {
			return c.Fresh("hmac.equal.opaque", SBool, 0)
		}
		return m.macEqual(x, y)
	}
	I["crypto/subtle.ConstantTimeCompare"] = func(m *Machine, fr *frame, a []Value, _ *ssa.CallCommon) Value {
		x, _ := bytesOf(m, a[0])
		y, _ := bytesOf(m, a[1])
		return c.Ite(termsEqual(c, x, y), c.BV(1, 64), c.BV(0, 64))
	}

	// ---- AES-CBC ----
	I["crypto/aes.NewCipher"] = func(m *Machine, fr *frame, a []Value, _ *ssa.CallCommon) Value {
		n := m.lenOf(a[0])
		okLen := c.Or(c.Eq(n, c.BV(16, 64)), c.Or(c.Eq(n, c.BV(24, 64)), c.Eq(n, c.BV(32, 64))))
		if !m.branch(okLen) {
			return Tuple{Iface{}, m.newError(Str{S: "crypto/aes: invalid key size"}, Iface{})}
		}
		key, _ := bytesOf(m, a[0])
		cell := new(Value)
		*cell = Struct{}
		m.cs().ciphers[cell] = key
		return Tuple{Iface{T: m.namedPtr("crypto/aes", "aesCipher"), V: cell}, Iface{}}
	}
	newCBC := func(enc bool) Intrinsic {
		return func(m *Machine, fr *frame, a []Value, _ *ssa.CallCommon) Value {
			blk := a[0].(Iface)
			if blk.T == nil {
				m.goPanic("nil pointer dereference (cipher.NewCBC on nil Block)")
			}
			key := m.cs().ciphers[blk.V.(*Value)]
			m.require(c.Eq(m.lenOf(a[1]), c.BV(16, 64)), "panic:crypto", "cipher.NewCBC: IV length must equal block size")
			iv, _ := bytesOf(m, a[1])
			cell := new(Value)
			*cell = Struct{}
			m.cs().cbcs[cell] = &cbcState{key: key, iv: iv, enc: enc}
			name := "cbcDecrypter"
			if enc {
				name = "cbcEncrypter"
			}
			return Iface{T: m.namedPtr("crypto/cipher", name), V: cell}
		}
	}
	I["crypto/cipher.NewCBCEncrypter"] = newCBC(true)
	I["crypto/cipher.NewCBCDecrypter"] = newCBC(false)
	crypt := func(m *Machine, fr *frame, a []Value, _ *ssa.CallCommon) Value {
		st := m.cs().cbcs[a[0].(*Value)]
		dst, src := a[1], a[2]
		ls, ld := m.lenOf(src), m.lenOf(dst)
		m.require(c.Eq(c.Bin(OURem, ls, c.BV(16, 64)), c.BV(0, 64)), "panic:crypto", "crypto/cipher: input not full blocks")
		m.require(c.Cmp(OULe, ls, ld), "panic:crypto", "crypto/cipher: output smaller than input")
		in, ok := bytesOf(m, src)
		d, okd := dst.(Slice)
		if !ok || !okd || st.key == nil || st.iv == nil {
			if okd {
				n := len(d.V)
				if ok && len(in) < n {
					n = len(in)
				}
				for i := 0; i < n; i++ {
					m.store(&d.V[i], c.Fresh("cbc.opaque", SBV, 8))
				}
			}
			return nil
		}
		if len(in) == 0 {
			return nil
		}
		kin := append(append(append([]*Term{}, st.key...), st.iv...), in...)
		f, g := "aescbc-E", "aescbc-D"
		if !st.enc {
			f, g = g, f
		}
		// exact inverse of an earlier application?
		var out []*Term
		gkey := fmt.Sprintf("%s/%d/%d", g, len(kin), len(in))
		for _, ap := range m.uf[gkey] {
			if sameTerms(ap.out, in) && sameTerms(ap.in[:len(st.key)+len(st.iv)], kin[:len(st.key)+len(st.iv)]) {
				out = ap.in[len(st.key)+len(st.iv):]
			}
		}
		if out == nil {
			out = m.ufApply(f, kin, len(in))
			// inverse axioms against earlier applications of g with the same key/iv
			for _, ap := range m.uf[gkey] {
				pre := len(st.key) + len(st.iv)
				e := c.And(termsEqual(c, ap.in[:pre], kin[:pre]), termsEqual(c, ap.out, in))
				if e.IsFalse() {
					continue
				}
				m.pc = append(m.pc, c.Or(c.Not(e), termsEqual(c, ap.in[pre:], out)))
			}
		}
		for i := range out {
			m.store(&d.V[i], out[i])
		}
		return nil
	}
	I["(*crypto/cipher.cbcEncrypter).CryptBlocks"] = crypt
	I["(*crypto/cipher.cbcDecrypter).CryptBlocks"] = crypt
	I["(*crypto/cipher.cbcEncrypter).BlockSize"] = func(m *Machine, fr *frame, a []Value, _ *ssa.CallCommon) Value { return c.BV(16, 64) }
	I["(*crypto/cipher.cbcDecrypter).BlockSize"] = I["(*crypto/cipher.cbcEncrypter).BlockSize"]

	// ---- RSA ----
	rsaEncrypt := func(scheme string, overhead func(args []Value) *Term, pubIdx, msgIdx int) Intrinsic {
		return func(m *Machine, fr *frame, a []Value, _ *ssa.CallCommon) Value {
			k := m.rsaKeyOf(a[pubIdx], "rsa.Encrypt"+scheme)
			n := m.lenOf(a[msgIdx])
			limit := c.Bin(OSub, k.size, overhead(a))
			if m.branch(c.Cmp(OSLt, limit, n)) {
				return Tuple{Slice{}, m.cryptoErr("crypto/rsa", "ErrMessageTooLong")}
			}
			pt, ok := bytesOf(m, a[msgIdx])
			if !ok || !k.size.IsConst() {
				return Tuple{LSlice{Len: k.size, Cap: k.size}, Iface{}}
			}
			ct := make([]*Term, int(k.size.C))
			for i := range ct {
				ct[i] = c.Fresh("rsa.ct", SBV, 8)
			}
			cs := m.cs()
			// decryption is a function: equal ciphertexts under one key carry equal plaintexts
			for _, e := range cs.encs {
				if e.key != k.id || e.scheme != scheme || len(e.ct) != len(ct) {
					continue
				}
				if len(e.pt) != len(pt) {
					m.pc = append(m.pc, c.Not(termsEqual(c, e.ct, ct)))
				} else {
					m.pc = append(m.pc, c.Or(c.Not(termsEqual(c, e.ct, ct)), termsEqual(c, e.pt, pt)))
				}
			}
			cs.encs = append(cs.encs, rsaEnc{key: k.id, scheme: scheme, pt: pt, ct: ct})
			return Tuple{termSlice(ct), Iface{}}
		}
	}
	rsaDecrypt := func(scheme string, privIdx, ctIdx int, minK func(args []Value) *Term) Intrinsic {
		return func(m *Machine, fr *frame, a []Value, _ *ssa.CallCommon) Value {
			k := m.rsaKeyOf(a[privIdx], "rsa.Decrypt"+scheme)
			n := m.lenOf(a[ctIdx])
			errDec := func() Value { return Tuple{Slice{}, m.cryptoErr("crypto/rsa", "ErrDecryption")} }
			if m.branch(c.Cmp(OSLt, k.size, n)) {
				return errDec()
			}
			if mk := minK(a); mk != nil && m.branch(c.Cmp(OSLt, k.size, mk)) {
				return errDec()
			}
			ct, ok := bytesOf(m, a[ctIdx])
			if !ok {
				// length-only: a block that decrypts yields some plaintext of at most k-overhead bytes
				if m.branch(c.Fresh("rsa.dec.ok", SBool, 0)) {
					pl := c.Fresh("rsa.pt.len", SBV, 64)
					m.pc = append(m.pc, c.Cmp(OSLe, c.BV(0, 64), pl), c.Cmp(OSLe, pl, k.size))
					return Tuple{LSlice{Len: pl, Cap: pl}, Iface{}}
				}
				return errDec()
			}
			for _, e := range m.cs().encs {
				if e.key == k.id && e.scheme == scheme && sameTerms(e.ct, ct) {
					return Tuple{termSlice(e.pt), Iface{}}
				}
			}
			for _, e := range m.cs().encs {
				if e.key != k.id || e.scheme != scheme || len(e.ct) != len(ct) {
					continue
				}
				if m.branch(termsEqual(c, e.ct, ct)) {
					return Tuple{termSlice(e.pt), Iface{}}
				}
			}
			return errDec()
		}
	}
	oaepOver := func(a []Value) *Term {
		h := m.hashOf(a[0].(Iface).V)
		return c.BV(uint64(2*h.size+2), 64)
	}
	I["crypto/rsa.EncryptOAEP"] = rsaEncrypt("oaep", oaepOver, 2, 3)
	I["crypto/rsa.DecryptOAEP"] = rsaDecrypt("oaep", 2, 3, func(a []Value) *Term { return oaepOver(a) })
	I["crypto/rsa.EncryptPKCS1v15"] = rsaEncrypt("pkcs1", func(a []Value) *Term { return c.BV(11, 64) }, 1, 2)
	I["crypto/rsa.DecryptPKCS1v15"] = rsaDecrypt("pkcs1", 1, 2, func(a []Value) *Term { return c.BV(11, 64) })

	sign := func(scheme string, privIdx, dgIdx int, randomised bool) Intrinsic {
		return func(m *Machine, fr *frame, a []Value, _ *ssa.CallCommon) Value {
			k := m.rsaKeyOf(a[privIdx], "rsa.Sign"+scheme)
			dg, ok := bytesOf(m, a[dgIdx])
			if !ok || !k.size.IsConst() {
				return Tuple{LSlice{Len: k.size, Cap: k.size}, Iface{}}
			}
			cs := m.cs()
			if !randomised {
				for _, s := range cs.sigs {
					if s.key == k.id && s.scheme == scheme && sameTerms(s.dg, dg) {
						return Tuple{termSlice(s.sg), Iface{}}
					}
				}
			}
			sg := make([]*Term, int(k.size.C))
			for i := range sg {
				sg[i] = c.Fresh("rsa.sig", SBV, 8)
			}
			if !randomised {
				for _, s := range cs.sigs {
					if s.key == k.id && s.scheme == scheme && len(s.dg) == len(dg) {
						m.pc = append(m.pc, c.Or(c.Not(termsEqual(c, s.dg, dg)), termsEqual(c, s.sg, sg)))
					}
				}
			}
			// ideal signatures: values issued under different keys, or for different digests, differ
			for _, s := range cs.sigs {
				if len(s.sg) != len(sg) {
					continue
				}
				if s.key != k.id || s.scheme != scheme || len(s.dg) != len(dg) {
					m.pc = append(m.pc, c.Not(termsEqual(c, s.sg, sg)))
				} else if !randomised {
					m.pc = append(m.pc, c.Or(termsEqual(c, s.dg, dg), c.Not(termsEqual(c, s.sg, sg))))
				} else {
					// salted: two signing operations never yield the same value
					m.pc = append(m.pc, c.Not(termsEqual(c, s.sg, sg)))
				}
			}
			cs.sigs = append(cs.sigs, rsaSig{key: k.id, scheme: scheme, dg: dg, sg: sg})
			return Tuple{termSlice(sg), Iface{}}
		}
	}
	verify := func(scheme string, pubIdx, dgIdx, sgIdx int) Intrinsic {
		return func(m *Machine, fr *frame, a []Value, _ *ssa.CallCommon) Value {
			k := m.rsaKeyOf(a[pubIdx], "rsa.Verify"+scheme)
			errV := func() Value { return m.cryptoErr("crypto/rsa", "ErrVerification") }
			if !m.branch(c.Eq(m.lenOf(a[sgIdx]), k.size)) {
				return errV()
			}
			dg, ok1 := bytesOf(m, a[dgIdx])
			sg, ok2 := bytesOf(m, a[sgIdx])
			if !ok1 || !ok2 {
				if m.branch(c.Fresh("rsa.verify.ok", SBool, 0)) {
					return Iface{}
				}
				return errV()
			}
			for _, s := range m.cs().sigs {
				if s.key != k.id || s.scheme != scheme || len(s.dg) != len(dg) || len(s.sg) != len(sg) {
					continue
				}
				e := c.And(termsEqual(c, s.dg, dg), termsEqual(c, s.sg, sg))
				if m.branch(e) {
					return Iface{}
				}
			}
			return errV()
		}
	}
	I["crypto/rsa.SignPKCS1v15"] = sign("pkcs1", 1, 3, false)
	I["crypto/rsa.VerifyPKCS1v15"] = verify("pkcs1", 0, 2, 3)
	I["crypto/rsa.SignPSS"] = sign("pss", 1, 3, true)
	I["crypto/rsa.VerifyPSS"] = verify("pss", 0, 2, 3)

	// ---- x509 ----
	I["crypto/x509.ParseCertificates"] = func(m *Machine, fr *frame, a []Value, _ *ssa.CallCommon) Value {
		der, ok := bytesOf(m, a[0])
		ct := m.P.namedType("crypto/x509", "Certificate")
		bad := func() Value {
			return Tuple{Slice{}, m.newError(Str{S: "x509: malformed certificate"}, Iface{})}
		}
		if !ok || ct == nil {
			return bad()
		}
		for _, cr := range m.cs().certs {
			if len(cr.der) != len(der) {
				continue
			}
			if m.branch(termsEqual(c, cr.der, der)) {
				cell := new(Value)
				st := m.zero(ct).(Struct)
				u := ct.Underlying().(*types.Struct)
				for i := 0; i < u.NumFields(); i++ {
					switch u.Field(i).Name() {
					case "Raw":
						st[i] = a[0]
					case "PublicKey":
						if cr.nonRSA {
							et := m.P.namedType("crypto/ecdsa", "PublicKey")
							if et == nil {
								m.unsupported("crypto/ecdsa not loaded")
							}
							kc := new(Value)
							*kc = m.zero(et)
							st[i] = Iface{T: types.NewPointer(et), V: kc}
						} else {
							st[i] = Iface{T: m.namedPtr("crypto/rsa", "PublicKey"), V: cr.pub}
						}
					}
				}
				*cell = st
				return Tuple{Slice{V: []Value{cell}}, Iface{}}
			}
		}
		return bad()
	}
}
