package gsx

import (
	"fmt"
	"go/types"

	"golang.org/x/tools/go/ssa"
)

// LSlice is a []byte of *symbolic length* whose contents are not tracked:
// every read yields an unconstrained byte, every write is dropped. It is the
// length abstraction used for "for every chunk size" obligations (C07, C38,
// C06, C15), where only the length arithmetic of the real code matters.
// Invariant kept on the path condition: 0 <= Len <= Cap <= 2^40.
//
// Head optionally tracks the first len(Head) bytes exactly (cells are shared between
// an LSlice and its sub-slices, as in Go), so that protocol headers written in front
// of a symbolic-length body stay observable. Invariant: len(Head) <= Len.
type LSlice struct {
	Len, Cap *Term
	Head     []Value
}

const lsliceMax = uint64(1) << 40

func (m *Machine) newLSlice(ln *Term, cp *Term) LSlice {
	c := m.ctx
	if cp == nil {
		cp = c.Fresh("lcap", SBV, 64)
		m.pc = append(m.pc, c.Cmp(OULe, ln, cp), c.Cmp(OULe, cp, c.BV(lsliceMax, 64)))
	}
	return LSlice{Len: ln, Cap: cp}
}

// lenOf returns the (possibly symbolic) length of a byte-sequence operand.
func (m *Machine) lenOf(v Value) *Term {
	c := m.ctx
	switch x := v.(type) {
	case LSlice:
		return x.Len
	case Slice:
		return c.BV(uint64(len(x.V)), 64)
	case Str:
		return c.BV(uint64(x.Len()), 64)
	}
	m.unsupported("lenOf %T", v)
	return nil
}

func (m *Machine) lsliceOp(x LSlice, lo, hi, max *Term) Value {
	c := m.ctx
	if lo == nil {
		lo = c.BV(0, 64)
	}
	if hi == nil {
		hi = x.Len
	}
	if max != nil {
		m.require(c.Cmp(OULe, max, x.Cap), "panic:slice", "slice bounds out of range [::max] with symbolic capacity")
		m.require(c.Cmp(OULe, hi, max), "panic:slice", "slice bounds out of range [:hi:max]")
	} else {
		m.require(c.Cmp(OULe, hi, x.Cap), "panic:slice", "slice bounds out of range [:hi] with symbolic capacity")
	}
	m.require(c.Cmp(OULe, lo, hi), "panic:slice", "slice bounds out of range [lo:hi]")
	top := x.Cap
	if max != nil {
		top = max
	}
	var head []Value
	if lo.IsConst() && lo.C <= uint64(len(x.Head)) {
		if hi == x.Len {
			head = x.Head[lo.C:]
		} else if hi.IsConst() {
			h := hi.C
			if h > uint64(len(x.Head)) {
				h = uint64(len(x.Head))
			}
			if lo.C <= h {
				head = x.Head[lo.C:h]
			}
		} else {
			// symbolic upper bound: the tracked prefix may be cut anywhere; keep what is surely inside
			m.refreshFacts()
			if r, ok := m.rangeOf(hi, 0); ok && r.lo >= lo.C {
				h := r.lo
				if h > uint64(len(x.Head)) {
					h = uint64(len(x.Head))
				}
				head = x.Head[lo.C:h]
			}
		}
	}
	nl := c.Bin(OSub, hi, lo)
	if nl.IsConst() && uint64(len(head)) >= nl.C && lo.IsConst() && hi.IsConst() {
		// entirely inside the tracked prefix: an ordinary slice sharing the same cells
		return Slice{V: head[:nl.C:nl.C]}
	}
	if !nl.IsConst() {
		// implied by lo <= hi <= cap <= 2^40; stated so that the range oracle sees it
		m.pc = append(m.pc, c.Cmp(OULe, nl, c.BV(lsliceMax, 64)))
	}
	return LSlice{Len: nl, Cap: c.Bin(OSub, top, lo), Head: head}
}

func (m *Machine) lsliceIndexAddr(x LSlice, i *Term) Value {
	c := m.ctx
	m.require(c.Cmp(OULt, i, x.Len), "panic:index", "index out of range with symbolic length")
	if i.IsConst() && i.C < uint64(len(x.Head)) {
		return &x.Head[i.C]
	}
	cell := new(Value)
	*cell = c.Fresh("lbyte", SBV, 8)
	return cell
}

// lsliceAppend handles append when either operand is an LSlice.
func (m *Machine) lsliceAppend(dst, src Value) Value {
	c := m.ctx
	n := c.Bin(OAdd, m.lenOf(dst), m.lenOf(src))
	m.pc = append(m.pc, c.Cmp(OULe, n, c.BV(lsliceMax, 64)))
	var head []Value
	srcHead := func() []Value {
		switch s := src.(type) {
		case Slice:
			return s.V
		case LSlice:
			return s.Head
		case Str:
			var out []Value
			for _, b := range c.StrBytes(s) {
				out = append(out, b)
			}
			return out
		}
		return nil
	}
	switch d := dst.(type) {
	case Slice:
		head = append(append([]Value{}, d.V...), srcHead()...)
	case LSlice:
		if d.Len.IsConst() && uint64(len(d.Head)) == d.Len.C {
			head = append(append([]Value{}, d.Head...), srcHead()...)
			if s, ok := src.(Slice); ok {
				_ = s
				return Slice{V: head}
			}
		} else {
			head = d.Head
		}
	}
	r := m.newLSlice(n, nil)
	r.Head = head
	return r
}

func (m *Machine) lsliceCopy(dst, src Value) Value {
	c := m.ctx
	a, b := m.lenOf(dst), m.lenOf(src)
	var cells, from []Value
	srcKnown := 0 // bytes of src known exactly (all of it for a concrete slice)
	srcAll := false
	switch s := src.(type) {
	case Slice:
		from, srcKnown, srcAll = s.V, len(s.V), true
	case LSlice:
		from, srcKnown = s.Head, len(s.Head)
	case Str:
		for _, x := range c.StrBytes(s) {
			from = append(from, x)
		}
		srcKnown, srcAll = len(from), true
	}
	switch d := dst.(type) {
	case Slice:
		cells = d.V
	case LSlice:
		cells = d.Head
	}
	tmp := make([]Value, len(cells))
	for i := range cells {
		switch {
		case i < srcKnown:
			tmp[i] = copyVal(from[i])
		case srcAll:
			tmp[i] = nil // beyond the source: untouched
		default:
			tmp[i] = c.Fresh("lbyte", SBV, 8)
		}
	}
	for i := range cells {
		if tmp[i] != nil {
			m.store(&cells[i], tmp[i])
		}
	}
	return c.Ite(c.Cmp(OULt, a, b), a, b)
}

func registerLSlice(m *Machine) {
	I := m.Intr
	c := m.ctx
	// vfOpaqueBytes(tag, n) []byte: n bytes of unconstrained, untracked content; n may be symbolic.
	I["vfOpaqueBytes"] = func(m *Machine, fr *frame, a []Value, _ *ssa.CallCommon) Value {
		n := a[1].(*Term)
		m.require(c.Cmp(OSLe, c.BV(0, 64), n), "panic:makeslice", "vfOpaqueBytes: negative length")
		m.pc = append(m.pc, c.Cmp(OULe, n, c.BV(lsliceMax, 64)))
		return LSlice{Len: n, Cap: n}
	}
	// vfHeadLen(b) int: number of leading bytes of b that are tracked exactly (all of them for an ordinary slice).
	I["vfHeadLen"] = func(m *Machine, fr *frame, a []Value, _ *ssa.CallCommon) Value {
		switch x := a[0].(type) {
		case Slice:
			return c.BV(uint64(len(x.V)), 64)
		case LSlice:
			return c.BV(uint64(len(x.Head)), 64)
		}
		return c.BV(0, 64)
	}
	// vfOpaqueAlloc(on): make([]byte, n) with symbolic n yields opaque bytes instead of enumerating n.
	I["vfOpaqueAlloc"] = func(m *Machine, fr *frame, a []Value, _ *ssa.CallCommon) Value {
		m.opaqueAlloc = a[0].(*Term).IsTrue()
		return nil
	}
}

// byteAt returns byte i of a byte sequence (unconstrained if it is not tracked).
func (m *Machine) byteAt(v Value, i int) *Term {
	switch x := v.(type) {
	case Slice:
		return x.V[i].(*Term)
	case LSlice:
		if i < len(x.Head) {
			return x.Head[i].(*Term)
		}
	}
	return m.ctx.Fresh("lbyte", SBV, 8)
}

func (m *Machine) setByteAt(v Value, i int, b *Term) {
	switch x := v.(type) {
	case Slice:
		m.store(&x.V[i], b)
	case LSlice:
		if i < len(x.Head) {
			m.store(&x.Head[i], b)
		}
	}
}

// registerBinary: encoding/binary's fixed-width accessors as intrinsics, so that a value
// written and read back is syntactically the same term (concat of its own slices).
func registerBinary(m *Machine) {
	I := m.Intr
	c := m.ctx
	for _, w := range []int{16, 32, 64} {
		w := w
		n := w / 8
		name := map[int]string{16: "Uint16", 32: "Uint32", 64: "Uint64"}[w]
		for _, order := range []string{"littleEndian", "bigEndian"} {
			le := order == "littleEndian"
			I["(encoding/binary."+order+")."+name] = func(m *Machine, fr *frame, a []Value, _ *ssa.CallCommon) Value {
				m.require(c.Cmp(OULe, c.BV(uint64(n), 64), m.lenOf(a[1])), "panic:index", fmt.Sprintf("index out of range [%d] (binary.%s)", n-1, name))
				var r *Term
				for i := 0; i < n; i++ {
					k := i
					if le {
						k = n - 1 - i
					}
					b := m.byteAt(a[1], k) // most significant first
					if r == nil {
						r = b
					} else {
						r = c.Concat(r, b)
					}
				}
				return r
			}
			I["(encoding/binary."+order+").Put"+name] = func(m *Machine, fr *frame, a []Value, _ *ssa.CallCommon) Value {
				m.require(c.Cmp(OULe, c.BV(uint64(n), 64), m.lenOf(a[1])), "panic:index", fmt.Sprintf("index out of range [%d] (binary.Put%s)", n-1, name))
				v := a[2].(*Term)
				for i := 0; i < n; i++ {
					k := i
					if !le {
						k = n - 1 - i
					}
					m.setByteAt(a[1], k, c.Extract(v, i*8+7, i*8))
				}
				return nil
			}
		}
	}
}

func isByteType(t types.Type) bool {
	b := basicOf(t)
	return b != nil && b.Kind() == types.Uint8
}

func (l LSlice) String() string { return fmt.Sprintf("LSlice{%v,%v}", l.Len, l.Cap) }
