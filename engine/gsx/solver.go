package gsx

import (
	"bufio"
	"fmt"
	"io"
	"os/exec"
	"strconv"
	"strings"
	"time"
)

type Result int

const (
	Unsat Result = iota
	Sat
	Unknown
)

func (r Result) String() string { return [...]string{"unsat", "sat", "unknown"}[r] }

// Solver drives one persistent SMT solver process.
type Solver struct {
	Kind    string // "z3", "z3-new", "cvc5", "cvc5-int"
	ctx     *Ctx
	cmd     *exec.Cmd
	in      io.WriteCloser
	out     *bufio.Reader
	defined []bool // by term id
	ndecl   int
	stack   []*Term // asserted terms, one push level each
	seq     int
	w       *bufio.Writer
	// stats
	NQueries  int
	NSat      int
	NUnsat    int
	NUnknown  int
	Time      time.Duration
	Errors    []string
	TimeoutMs int
	Log       io.Writer
	lastExtra bool

	SlowThreshold time.Duration
	OnSlow        func(time.Duration)
}

func NewSolver(ctx *Ctx, kind string, timeoutMs int) (*Solver, error) {
	s := &Solver{Kind: kind, ctx: ctx, TimeoutMs: timeoutMs}
	if err := s.start(); err != nil {
		return nil, err
	}
	return s, nil
}

func (s *Solver) start() error {
	var cmd *exec.Cmd
	switch s.Kind {
	case "z3":
		cmd = exec.Command("z3", "-in")
	case "z3-new":
		cmd = exec.Command("z3-new", "-in")
	case "cvc5":
		cmd = exec.Command("cvc5", "--incremental", "--lang=smt2", "--produce-models", fmt.Sprintf("--tlimit-per=%d", s.TimeoutMs))
	case "cvc5-int":
		cmd = exec.Command("cvc5", "--incremental", "--lang=smt2", "--produce-models", "--solve-bv-as-int=sum", fmt.Sprintf("--tlimit-per=%d", s.TimeoutMs))
	default:
		return fmt.Errorf("unknown solver %q", s.Kind)
	}
	in, err := cmd.StdinPipe()
	if err != nil {
		return err
	}
	out, err := cmd.StdoutPipe()
	if err != nil {
		return err
	}
	cmd.Stderr = cmd.Stdout
	if err := cmd.Start(); err != nil {
		return err
	}
	s.cmd, s.in, s.out = cmd, in, bufio.NewReaderSize(out, 1<<16)
	s.w = bufio.NewWriterSize(in, 1<<16)
	s.defined = nil
	s.ndecl = 0
	s.stack = nil
	s.send("(set-option :global-declarations true)")
	if strings.HasPrefix(s.Kind, "z3") {
		s.send(fmt.Sprintf("(set-option :timeout %d)", s.TimeoutMs))
	} else {
		s.send("(set-logic ALL)")
	}
	return nil
}

func (s *Solver) Close() {
	if s.cmd != nil {
		s.in.Close()
		s.cmd.Process.Kill()
		s.cmd.Wait()
		s.cmd = nil
	}
}

func (s *Solver) Restart() error {
	s.Close()
	return s.start()
}

func (s *Solver) send(line string) {
	if s.Log != nil {
		fmt.Fprintln(s.Log, line)
	}
	s.w.WriteString(line)
	s.w.WriteByte('\n')
}

func tname(t *Term) string {
	switch t.Op {
	case OVar:
		return "|" + t.Name + "|"
	case OConst:
		return t.smtBody(nil)
	}
	return "t" + strconv.Itoa(t.ID)
}

// Define makes t known to the solver (call before Check when its value is wanted).
func (s *Solver) Define(t *Term) { s.DoneModel(); s.define(t) }

// define makes sure t and all sub-terms are known to the solver.
func (s *Solver) define(t *Term) {
	// flush new UF declarations
	for s.ndecl < len(s.ctx.DeclOrder) {
		s.send(s.ctx.Decls[s.ctx.DeclOrder[s.ndecl]])
		s.ndecl++
	}
	if t.ID < len(s.defined) && s.defined[t.ID] {
		return
	}
	type fr struct {
		t *Term
		i int
	}
	st := []fr{{t, 0}}
	for len(st) > 0 {
		f := &st[len(st)-1]
		if f.t.ID < len(s.defined) && s.defined[f.t.ID] {
			st = st[:len(st)-1]
			continue
		}
		if f.i < len(f.t.Args) {
			a := f.t.Args[f.i]
			f.i++
			if !(a.ID < len(s.defined) && s.defined[a.ID]) {
				st = append(st, fr{a, 0})
			}
			continue
		}
		x := f.t
		st = st[:len(st)-1]
		for len(s.defined) <= x.ID {
			s.defined = append(s.defined, false)
		}
		s.defined[x.ID] = true
		switch x.Op {
		case OConst:
		case OVar:
			s.send(fmt.Sprintf("(declare-const |%s| %s)", x.Name, sortStr(x.S, x.W)))
		case OFToBits:
			nm := "|fbits!" + strconv.Itoa(x.ID) + "|"
			a := x.Args[0]
			w := fwidth(a.S)
			s.send(fmt.Sprintf("(declare-const %s (_ BitVec %d))", nm, w))
			e, m := 8, 24
			if w == 64 {
				e, m = 11, 53
			}
			s.send(fmt.Sprintf("(assert (= ((_ to_fp %d %d) %s) %s))", e, m, nm, tname(a)))
			s.send(fmt.Sprintf("(assert (=> (fp.isNaN %s) (= %s %s)))", tname(a), nm, bvLit(canonNaN(a.S), uint16(w))))
			s.send(fmt.Sprintf("(define-fun t%d () (_ BitVec %d) %s)", x.ID, w, nm))
		default:
			s.send(fmt.Sprintf("(define-fun t%d () %s %s)", x.ID, sortStr(x.S, x.W), x.smtBody(tname)))
		}
	}
}

// align makes the solver assertion stack equal to pc.
func (s *Solver) align(pc []*Term) {
	n := 0
	for n < len(pc) && n < len(s.stack) && pc[n] == s.stack[n] {
		n++
	}
	if n < len(s.stack) {
		s.send(fmt.Sprintf("(pop %d)", len(s.stack)-n))
		s.stack = s.stack[:n]
	}
	for ; n < len(pc); n++ {
		s.define(pc[n])
		s.send("(push 1)")
		s.send("(assert " + tname(pc[n]) + ")")
		s.stack = append(s.stack, pc[n])
	}
}

func (s *Solver) readUntilSync() []string {
	s.seq++
	tag := fmt.Sprintf("sync%d", s.seq)
	s.send(fmt.Sprintf("(echo \"%s\")", tag))
	s.w.Flush()
	var lines []string
	for {
		line, err := s.out.ReadString('\n')
		line = strings.TrimSpace(line)
		if strings.Contains(line, tag) {
			return lines
		}
		if line != "" {
			lines = append(lines, line)
		}
		if err != nil {
			lines = append(lines, "(error \"solver died: "+err.Error()+"\")")
			return lines
		}
	}
}

// Check decides satisfiability of pc ∧ extra.
func (s *Solver) Check(pc []*Term, extra ...*Term) Result {
	t0 := time.Now()
	defer func() {
		d := time.Since(t0)
		s.Time += d
		if d > s.SlowThreshold && s.SlowThreshold > 0 && s.OnSlow != nil {
			s.OnSlow(d)
		}
	}()
	s.NQueries++
	s.DoneModel()
	s.align(pc)
	for _, e := range extra {
		s.define(e)
	}
	if len(extra) > 0 {
		s.send("(push 1)")
		for _, e := range extra {
			s.send("(assert " + tname(e) + ")")
		}
	}
	s.send("(check-sat)")
	lines := s.readUntilSync()
	res := Unknown
	bad := false
	for _, l := range lines {
		switch {
		case l == "sat":
			res = Sat
		case l == "unsat":
			res = Unsat
		case l == "unknown":
			res = Unknown
		case strings.HasPrefix(l, "(error"):
			bad = true
			s.Errors = append(s.Errors, l)
		}
	}
	if bad {
		res = Unknown
	}
	s.lastExtra = len(extra) > 0
	if res != Sat && len(extra) > 0 {
		s.send("(pop 1)")
		s.lastExtra = false
	}
	switch res {
	case Sat:
		s.NSat++
	case Unsat:
		s.NUnsat++
	default:
		s.NUnknown++
		if bad {
			// resynchronise hard
			s.Restart()
		}
	}
	return res
}

// Values returns model values for ts after a Sat answer, then drops the extra frame.
func (s *Solver) Values(ts []*Term) (map[int]uint64, error) {
	defer s.DoneModel()
	out := map[int]uint64{}
	if len(ts) == 0 {
		return out, nil
	}
	var ask []*Term
	for _, t := range ts {
		if t.Op == OConst {
			out[t.ID] = t.C
			continue
		}
		if !(t.ID < len(s.defined) && s.defined[t.ID]) {
			if t.Op == OVar {
				out[t.ID] = 0 // unconstrained
				continue
			}
			return nil, fmt.Errorf("Values: term t%d not defined before check", t.ID)
		}
		ask = append(ask, t)
	}
	ts = ask
	const batch = 200
	for i := 0; i < len(ts); i += batch {
		j := i + batch
		if j > len(ts) {
			j = len(ts)
		}
		var sb strings.Builder
		sb.WriteString("(get-value (")
		for _, t := range ts[i:j] {
			sb.WriteString(tname(t) + " ")
		}
		sb.WriteString("))")
		s.send(sb.String())
		lines := s.readUntilSync()
		txt := strings.Join(lines, " ")
		if strings.Contains(txt, "(error") {
			return nil, fmt.Errorf("get-value: %s", txt)
		}
		vals, err := parseValues(txt)
		if err != nil {
			return nil, err
		}
		if len(vals) != j-i {
			return nil, fmt.Errorf("get-value: expected %d values, got %d: %s", j-i, len(vals), txt)
		}
		for k, v := range vals {
			out[ts[i+k].ID] = v
		}
	}
	return out, nil
}

// DoneModel pops the extra frame left open by a Sat Check.
func (s *Solver) DoneModel() {
	if s.lastExtra {
		s.send("(pop 1)")
		s.lastExtra = false
	}
}

// parseValues parses "((name val) (name val) ...)" and returns the values in order.
func parseValues(txt string) ([]uint64, error) {
	toks := tokenize(txt)
	pos := 0
	var parse func() interface{}
	parse = func() interface{} {
		if pos >= len(toks) {
			return nil
		}
		t := toks[pos]
		pos++
		if t == "(" {
			var l []interface{}
			for pos < len(toks) && toks[pos] != ")" {
				l = append(l, parse())
			}
			pos++
			return l
		}
		return t
	}
	top, ok := parse().([]interface{})
	if !ok {
		return nil, fmt.Errorf("bad get-value output: %s", txt)
	}
	var out []uint64
	for _, e := range top {
		pair, ok := e.([]interface{})
		if !ok || len(pair) != 2 {
			return nil, fmt.Errorf("bad pair in: %s", txt)
		}
		v, err := sexpValue(pair[1])
		if err != nil {
			return nil, err
		}
		out = append(out, v)
	}
	return out, nil
}

func sexpValue(e interface{}) (uint64, error) {
	switch x := e.(type) {
	case string:
		switch {
		case x == "true":
			return 1, nil
		case x == "false":
			return 0, nil
		case strings.HasPrefix(x, "#x"):
			v, err := strconv.ParseUint(x[2:], 16, 64)
			return v, err
		case strings.HasPrefix(x, "#b"):
			v, err := strconv.ParseUint(x[2:], 2, 64)
			return v, err
		}
	case []interface{}:
		// (_ bvN w)
		if len(x) == 3 {
			if s0, ok := x[0].(string); ok && s0 == "_" {
				if s1, ok := x[1].(string); ok && strings.HasPrefix(s1, "bv") {
					v, err := strconv.ParseUint(s1[2:], 10, 64)
					return v, err
				}
			}
		}
	}
	return 0, fmt.Errorf("unparsed value %v", e)
}

func tokenize(s string) []string {
	var toks []string
	i := 0
	for i < len(s) {
		ch := s[i]
		switch {
		case ch == '(' || ch == ')':
			toks = append(toks, string(ch))
			i++
		case ch == ' ' || ch == '\n' || ch == '\t' || ch == '\r':
			i++
		case ch == '|':
			j := i + 1
			for j < len(s) && s[j] != '|' {
				j++
			}
			toks = append(toks, s[i:j+1])
			i = j + 1
		default:
			j := i
			for j < len(s) && !strings.ContainsRune("() \n\t\r", rune(s[j])) {
				j++
			}
			toks = append(toks, s[i:j])
			i = j
		}
	}
	return toks
}
