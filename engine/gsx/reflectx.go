package gsx

import (
	"fmt"
	"go/types"

	"golang.org/x/tools/go/ssa"
)

// RT is the payload of a reflect.Type interface value.
type RT struct{ T types.Type }

// RV models reflect.Value.
type RV struct {
	T types.Type // nil => invalid
	P *Value     // addressable location, or nil
	V Value      // value if not addressable
}

var rtMarker = types.NewNamed(types.NewTypeName(0, nil, "gsx.rtype", nil), types.NewStruct(nil, nil), nil)

func mkRT(t types.Type) Value { return Iface{T: rtMarker, V: RT{t}} }

func (rv RV) get() Value {
	if rv.P != nil {
		return copyVal(*rv.P)
	}
	return rv.V
}

func kindOf(t types.Type) int {
	switch u := t.Underlying().(type) {
	case *types.Basic:
		switch u.Kind() {
		case types.Bool:
			return 1
		case types.Int:
			return 2
		case types.Int8:
			return 3
		case types.Int16:
			return 4
		case types.Int32:
			return 5
		case types.Int64:
			return 6
		case types.Uint:
			return 7
		case types.Uint8:
			return 8
		case types.Uint16:
			return 9
		case types.Uint32:
			return 10
		case types.Uint64:
			return 11
		case types.Uintptr:
			return 12
		case types.Float32:
			return 13
		case types.Float64:
			return 14
		case types.Complex64:
			return 15
		case types.Complex128:
			return 16
		case types.String:
			return 24
		case types.UnsafePointer:
			return 26
		}
	case *types.Array:
		return 17
	case *types.Chan:
		return 18
	case *types.Signature:
		return 19
	case *types.Interface:
		return 20
	case *types.Map:
		return 21
	case *types.Pointer:
		return 22
	case *types.Slice:
		return 23
	case *types.Struct:
		return 25
	}
	return 0
}

func argRT(v Value) types.Type {
	iv, ok := v.(Iface)
	if !ok || iv.T == nil {
		return nil
	}
	return iv.V.(RT).T
}

func (m *Machine) rvOf(v Value) RV {
	iv := v.(Iface)
	if iv.T == nil {
		return RV{}
	}
	return RV{T: iv.T, V: iv.V}
}

func (m *Machine) reflectTypeMethod(rt RT, name string, args []Value) Value {
	c := m.ctx
	t := rt.T
	switch name {
	case "Kind":
		return c.BV(uint64(kindOf(t)), 64)
	case "Elem":
		switch u := t.Underlying().(type) {
		case *types.Pointer:
			return mkRT(u.Elem())
		case *types.Slice:
			return mkRT(u.Elem())
		case *types.Array:
			return mkRT(u.Elem())
		case *types.Map:
			return mkRT(u.Elem())
		case *types.Chan:
			return mkRT(u.Elem())
		}
		m.goPanic("reflect: Elem of invalid type " + t.String())
	case "Key":
		return mkRT(t.Underlying().(*types.Map).Key())
	case "String":
		return Str{S: types.TypeString(t, func(p *types.Package) string { return p.Name() })}
	case "Name":
		if n, ok := t.(*types.Named); ok {
			return Str{S: n.Obj().Name()}
		}
		if b, ok := t.(*types.Basic); ok {
			return Str{S: b.Name()}
		}
		return Str{}
	case "PkgPath":
		if n, ok := t.(*types.Named); ok && n.Obj().Pkg() != nil {
			return Str{S: n.Obj().Pkg().Path()}
		}
		return Str{}
	case "Implements":
		it := argRT(args[0])
		return c.Bool(m.P.implements(t, it.Underlying().(*types.Interface)))
	case "AssignableTo":
		return c.Bool(types.AssignableTo(t, argRT(args[0])))
	case "ConvertibleTo":
		return c.Bool(types.ConvertibleTo(t, argRT(args[0])))
	case "Comparable":
		return c.Bool(types.Comparable(t))
	case "NumField":
		return c.BV(uint64(t.Underlying().(*types.Struct).NumFields()), 64)
	case "Len":
		return c.BV(uint64(t.Underlying().(*types.Array).Len()), 64)
	case "Field":
		st := t.Underlying().(*types.Struct)
		i := int(m.concreteInt(args[0].(*Term), "Type.Field"))
		if i < 0 || i >= st.NumFields() {
			m.goPanic("reflect: Field index out of bounds")
		}
		f := st.Field(i)
		pkg := ""
		if !f.Exported() && f.Pkg() != nil {
			pkg = f.Pkg().Path()
		}
		return Struct{Str{S: f.Name()}, Str{S: pkg}, mkRT(f.Type()), Str{S: st.Tag(i)}, c.BV(0, 64), Slice{V: []Value{c.BV(uint64(i), 64)}}, c.Bool(f.Embedded())}
	case "NumMethod":
		return c.BV(uint64(m.P.Prog.MethodSets.MethodSet(t).Len()), 64)
	case "Size":
		return c.BV(uint64(sizes.Sizeof(t)), 64)
	}
	m.unsupported("reflect.Type.%s", name)
	return nil
}

func (m *Machine) rvKindCheck(rv RV, what string) {
	if rv.T == nil {
		m.goPanic("reflect: call of reflect.Value." + what + " on zero Value")
	}
}

func registerReflect(m *Machine) {
	I := m.Intr
	c := m.ctx
	R := func(name string, f func(m *Machine, rv RV, a []Value) Value) {
		I["(reflect.Value)."+name] = func(m *Machine, fr *frame, a []Value, _ *ssa.CallCommon) Value {
			return f(m, a[0].(RV), a[1:])
		}
	}
	I["reflect.TypeOf"] = func(m *Machine, fr *frame, a []Value, _ *ssa.CallCommon) Value {
		iv := a[0].(Iface)
		if iv.T == nil {
			return Iface{}
		}
		return mkRT(iv.T)
	}
	I["internal/reflectlite.TypeOf"] = I["reflect.TypeOf"]
	I["reflect.ValueOf"] = func(m *Machine, fr *frame, a []Value, _ *ssa.CallCommon) Value { return m.rvOf(a[0]) }
	I["reflect.Zero"] = func(m *Machine, fr *frame, a []Value, _ *ssa.CallCommon) Value {
		t := argRT(a[0])
		return RV{T: t, V: m.zero(t)}
	}
	I["reflect.New"] = func(m *Machine, fr *frame, a []Value, _ *ssa.CallCommon) Value {
		t := argRT(a[0])
		cell := new(Value)
		*cell = m.zero(t)
		return RV{T: types.NewPointer(t), V: cell}
	}
	I["reflect.SliceOf"] = func(m *Machine, fr *frame, a []Value, _ *ssa.CallCommon) Value {
		return mkRT(types.NewSlice(argRT(a[0])))
	}
	I["reflect.PointerTo"] = func(m *Machine, fr *frame, a []Value, _ *ssa.CallCommon) Value {
		return mkRT(types.NewPointer(argRT(a[0])))
	}
	I["reflect.PtrTo"] = I["reflect.PointerTo"]
	I["reflect.Indirect"] = func(m *Machine, fr *frame, a []Value, _ *ssa.CallCommon) Value {
		rv := a[0].(RV)
		if rv.T != nil && kindOf(rv.T) == 22 {
			return m.rvElem(rv)
		}
		return rv
	}
	I["reflect.MakeSlice"] = func(m *Machine, fr *frame, a []Value, _ *ssa.CallCommon) Value {
		t := argRT(a[0])
		ln, cp := a[1].(*Term), a[2].(*Term)
		m.require(c.Cmp(OSLe, c.BV(0, 64), ln), "panic:makeslice", "reflect.MakeSlice: negative len")
		m.require(c.Cmp(OSLe, c.BV(0, 64), cp), "panic:makeslice", "reflect.MakeSlice: negative cap")
		m.require(c.Cmp(OSLe, ln, cp), "panic:makeslice", "reflect.MakeSlice: len > cap")
		et := t.Underlying().(*types.Slice).Elem()
		m.allocObligation(cp, sizes.Sizeof(et))
		m.cutLen(cp)
		l := int(m.concretize(ln, "reflect.MakeSlice len"))
		k := int(m.concretize(cp, "reflect.MakeSlice cap"))
		return RV{T: t, V: m.newSlice(et, l, k)}
	}
	I["reflect.Copy"] = func(m *Machine, fr *frame, a []Value, _ *ssa.CallCommon) Value {
		dst, src := a[0].(RV), a[1].(RV)
		var d, s []Value
		switch x := dst.get().(type) {
		case Slice:
			d = x.V
		case Array:
			if dst.P == nil {
				m.goPanic("reflect.Copy: unaddressable array value")
			}
			d = (*dst.P).(Array)
		}
		switch x := src.get().(type) {
		case Slice:
			s = x.V
		case Array:
			s = x
		case Str:
			for _, b := range c.StrBytes(x) {
				s = append(s, b)
			}
		}
		n := len(d)
		if len(s) < n {
			n = len(s)
		}
		for i := 0; i < n; i++ {
			m.store(&d[i], s[i])
		}
		return c.BV(uint64(n), 64)
	}
	I["reflect.Append"] = func(m *Machine, fr *frame, a []Value, _ *ssa.CallCommon) Value {
		rv := a[0].(RV)
		sl := rv.get().(Slice)
		out := append([]Value{}, sl.V...)
		for _, x := range a[1].(Slice).V {
			out = append(out, m.assignTo(x.(RV), rv.T.Underlying().(*types.Slice).Elem()))
		}
		return RV{T: rv.T, V: Slice{V: out}}
	}
	I["reflect.DeepEqual"] = func(m *Machine, fr *frame, a []Value, _ *ssa.CallCommon) Value {
		return m.deepEqual(a[0], a[1], 0)
	}

	R("Kind", func(m *Machine, rv RV, a []Value) Value {
		if rv.T == nil {
			return c.BV(0, 64)
		}
		return c.BV(uint64(kindOf(rv.T)), 64)
	})
	R("Type", func(m *Machine, rv RV, a []Value) Value {
		m.rvKindCheck(rv, "Type")
		return mkRT(rv.T)
	})
	R("IsValid", func(m *Machine, rv RV, a []Value) Value { return c.Bool(rv.T != nil) })
	R("CanSet", func(m *Machine, rv RV, a []Value) Value { return c.Bool(rv.P != nil) })
	R("CanAddr", func(m *Machine, rv RV, a []Value) Value { return c.Bool(rv.P != nil) })
	R("CanInterface", func(m *Machine, rv RV, a []Value) Value { return c.Bool(rv.T != nil) })
	R("Addr", func(m *Machine, rv RV, a []Value) Value {
		if rv.P == nil {
			m.goPanic("reflect.Value.Addr of unaddressable value")
		}
		return RV{T: types.NewPointer(rv.T), V: rv.P}
	})
	R("Elem", func(m *Machine, rv RV, a []Value) Value { return m.rvElem(rv) })
	R("IsNil", func(m *Machine, rv RV, a []Value) Value {
		m.rvKindCheck(rv, "IsNil")
		switch kindOf(rv.T) {
		case 18, 19, 20, 21, 22, 23, 26:
			return c.Bool(isNil(rv.get()))
		}
		m.goPanic("reflect: call of reflect.Value.IsNil on " + rv.T.String() + " Value")
		return nil
	})
	R("IsZero", func(m *Machine, rv RV, a []Value) Value {
		m.rvKindCheck(rv, "IsZero")
		return m.equalOrNil(rv.get(), m.zero(rv.T))
	})
	R("Interface", func(m *Machine, rv RV, a []Value) Value {
		m.rvKindCheck(rv, "Interface")
		if types.IsInterface(rv.T) {
			return rv.get()
		}
		return Iface{T: rv.T, V: rv.get()}
	})
	R("NumField", func(m *Machine, rv RV, a []Value) Value {
		m.rvKindCheck(rv, "NumField")
		st, ok := rv.T.Underlying().(*types.Struct)
		if !ok {
			m.goPanic("reflect: call of reflect.Value.NumField on " + rv.T.String() + " Value")
		}
		return c.BV(uint64(st.NumFields()), 64)
	})
	R("Field", func(m *Machine, rv RV, a []Value) Value {
		m.rvKindCheck(rv, "Field")
		st, ok := rv.T.Underlying().(*types.Struct)
		if !ok {
			m.goPanic("reflect: call of reflect.Value.Field on " + rv.T.String() + " Value")
		}
		i := int(m.concreteInt(a[0].(*Term), "Value.Field"))
		if i < 0 || i >= st.NumFields() {
			m.goPanic("reflect: Field index out of range")
		}
		ft := st.Field(i).Type()
		if rv.P != nil {
			return RV{T: ft, P: &(*rv.P).(Struct)[i]}
		}
		return RV{T: ft, V: rv.V.(Struct)[i]}
	})
	R("Len", func(m *Machine, rv RV, a []Value) Value {
		m.rvKindCheck(rv, "Len")
		switch x := rv.get().(type) {
		case LSlice:
			return x.Len
		case Slice:
			return c.BV(uint64(len(x.V)), 64)
		case Array:
			return c.BV(uint64(len(x)), 64)
		case Str:
			return c.BV(uint64(x.Len()), 64)
		case *Map:
			if x == nil {
				return c.BV(0, 64)
			}
			return c.BV(uint64(len(x.E)), 64)
		case *Chan:
			if x == nil {
				return c.BV(0, 64)
			}
			return c.BV(uint64(len(x.Buf)), 64)
		}
		m.goPanic("reflect: call of reflect.Value.Len on " + rv.T.String() + " Value")
		return nil
	})
	R("Cap", func(m *Machine, rv RV, a []Value) Value {
		switch x := rv.get().(type) {
		case Slice:
			return c.BV(uint64(cap(x.V)), 64)
		case Array:
			return c.BV(uint64(len(x)), 64)
		}
		m.goPanic("reflect: call of reflect.Value.Cap on " + rv.T.String() + " Value")
		return nil
	})
	R("Index", func(m *Machine, rv RV, a []Value) Value {
		m.rvKindCheck(rv, "Index")
		i := a[0].(*Term)
		switch u := rv.T.Underlying().(type) {
		case *types.Slice:
			sl := rv.get().(Slice)
			k := m.checkIndex(i, len(sl.V), "reflect slice")
			return RV{T: u.Elem(), P: &sl.V[k]}
		case *types.Array:
			if rv.P != nil {
				arr := (*rv.P).(Array)
				k := m.checkIndex(i, len(arr), "reflect array")
				return RV{T: u.Elem(), P: &arr[k]}
			}
			arr := rv.V.(Array)
			k := m.checkIndex(i, len(arr), "reflect array")
			return RV{T: u.Elem(), V: arr[k]}
		case *types.Basic:
			s := rv.get().(Str)
			return RV{T: types.Typ[types.Uint8], V: m.strIndex(s, i)}
		}
		m.goPanic("reflect: call of reflect.Value.Index on " + rv.T.String() + " Value")
		return nil
	})
	R("Slice", func(m *Machine, rv RV, a []Value) Value {
		lo := int(m.concreteInt(a[0].(*Term), "Value.Slice"))
		hi := int(m.concreteInt(a[1].(*Term), "Value.Slice"))
		switch x := rv.get().(type) {
		case Slice:
			if lo < 0 || hi < lo || hi > cap(x.V) {
				m.goPanic("reflect.Value.Slice: slice index out of bounds")
			}
			return RV{T: rv.T, V: Slice{V: x.V[lo:hi]}}
		}
		m.unsupported("reflect.Value.Slice on %v", rv.T)
		return nil
	})
	R("Bytes", func(m *Machine, rv RV, a []Value) Value {
		m.rvKindCheck(rv, "Bytes")
		switch x := rv.get().(type) {
		case Slice:
			return x
		case LSlice:
			return x
		case Array:
			if rv.P != nil {
				return Slice{V: (*rv.P).(Array)}
			}
		}
		m.goPanic("reflect.Value.Bytes of non-byte slice")
		return nil
	})
	R("Bool", func(m *Machine, rv RV, a []Value) Value {
		m.rvKindCheck(rv, "Bool")
		t, ok := rv.get().(*Term)
		if !ok || t.S != SBool {
			m.goPanic("reflect: call of reflect.Value.Bool on " + rv.T.String() + " Value")
		}
		return t
	})
	R("Int", func(m *Machine, rv RV, a []Value) Value {
		m.rvKindCheck(rv, "Int")
		k := kindOf(rv.T)
		if k < 2 || k > 6 {
			m.goPanic("reflect: call of reflect.Value.Int on " + rv.T.String() + " Value")
		}
		return c.SExt(rv.get().(*Term), 64)
	})
	R("Uint", func(m *Machine, rv RV, a []Value) Value {
		m.rvKindCheck(rv, "Uint")
		k := kindOf(rv.T)
		if k < 7 || k > 12 {
			m.goPanic("reflect: call of reflect.Value.Uint on " + rv.T.String() + " Value")
		}
		return c.ZExt(rv.get().(*Term), 64)
	})
	R("Float", func(m *Machine, rv RV, a []Value) Value {
		m.rvKindCheck(rv, "Float")
		k := kindOf(rv.T)
		if k != 13 && k != 14 {
			m.goPanic("reflect: call of reflect.Value.Float on " + rv.T.String() + " Value")
		}
		return c.FConv(rv.get().(*Term), SF64)
	})
	R("String", func(m *Machine, rv RV, a []Value) Value {
		if rv.T == nil {
			return Str{S: "<invalid Value>"}
		}
		if s, ok := rv.get().(Str); ok {
			return s
		}
		return Str{S: "<" + rv.T.String() + " Value>"}
	})
	R("Pointer", func(m *Machine, rv RV, a []Value) Value { return c.BV(0, 64) })
	set := func(m *Machine, rv RV, v Value, what string) {
		m.rvKindCheck(rv, what)
		if rv.P == nil {
			m.goPanic("reflect: reflect.Value." + what + " using unaddressable value")
		}
		m.store(rv.P, v)
	}
	R("Set", func(m *Machine, rv RV, a []Value) Value {
		x := a[0].(RV)
		m.rvKindCheck(x, "Set")
		m.rvKindCheck(rv, "Set")
		if !types.AssignableTo(x.T, rv.T) {
			m.goPanic("reflect.Set: value of type " + x.T.String() + " is not assignable to type " + rv.T.String())
		}
		set(m, rv, m.assignTo(x, rv.T), "Set")
		return nil
	})
	R("SetBool", func(m *Machine, rv RV, a []Value) Value { set(m, rv, a[0], "SetBool"); return nil })
	R("SetInt", func(m *Machine, rv RV, a []Value) Value {
		m.rvKindCheck(rv, "SetInt")
		w, _ := intWidth(basicOf(rv.T))
		set(m, rv, c.Extract(a[0].(*Term), w-1, 0), "SetInt")
		return nil
	})
	R("SetUint", func(m *Machine, rv RV, a []Value) Value {
		m.rvKindCheck(rv, "SetUint")
		w, _ := intWidth(basicOf(rv.T))
		set(m, rv, c.Extract(a[0].(*Term), w-1, 0), "SetUint")
		return nil
	})
	R("SetFloat", func(m *Machine, rv RV, a []Value) Value {
		m.rvKindCheck(rv, "SetFloat")
		set(m, rv, c.FConv(a[0].(*Term), fsortOf(basicOf(rv.T))), "SetFloat")
		return nil
	})
	R("SetString", func(m *Machine, rv RV, a []Value) Value { set(m, rv, a[0], "SetString"); return nil })
	R("SetBytes", func(m *Machine, rv RV, a []Value) Value { set(m, rv, a[0], "SetBytes"); return nil })
	R("SetLen", func(m *Machine, rv RV, a []Value) Value {
		sl := rv.get().(Slice)
		n := int(m.concreteInt(a[0].(*Term), "SetLen"))
		if n < 0 || n > cap(sl.V) {
			m.goPanic("reflect: slice length out of range in SetLen")
		}
		set(m, rv, Slice{V: sl.V[:n]}, "SetLen")
		return nil
	})
	R("CanConvert", func(m *Machine, rv RV, a []Value) Value {
		m.rvKindCheck(rv, "CanConvert")
		return c.Bool(types.ConvertibleTo(rv.T, argRT(a[0])))
	})
	R("Convert", func(m *Machine, rv RV, a []Value) Value {
		m.rvKindCheck(rv, "Convert")
		t := argRT(a[0])
		if !types.ConvertibleTo(rv.T, t) {
			m.goPanic("reflect.Value.Convert: value of type " + rv.T.String() + " cannot be converted to type " + t.String())
		}
		v := rv.get()
		if types.IsInterface(t) {
			if !types.IsInterface(rv.T) {
				v = Iface{T: rv.T, V: v}
			}
			return RV{T: t, V: v}
		}
		if _, ok := v.(*Term); ok {
			v = m.conv(t, rv.T, v)
		} else if _, ok := v.(Str); ok {
			v = m.conv(t, rv.T, v)
		} else if _, ok := v.(Slice); ok {
			v = m.conv(t, rv.T, v)
		}
		return RV{T: t, V: v}
	})
	R("MapKeys", func(m *Machine, rv RV, a []Value) Value {
		mp, _ := rv.get().(*Map)
		kt := rv.T.Underlying().(*types.Map).Key()
		var out []Value
		if mp != nil {
			for _, e := range mp.E {
				out = append(out, RV{T: kt, V: e.K})
			}
		}
		return Slice{V: out}
	})
	R("MapIndex", func(m *Machine, rv RV, a []Value) Value {
		mp, _ := rv.get().(*Map)
		v, ok := m.mapGet(mp, a[0].(RV).get())
		if !ok {
			return RV{}
		}
		return RV{T: rv.T.Underlying().(*types.Map).Elem(), V: v}
	})
}

// assignTo converts x for assignment into a location of type t (interface boxing).
func (m *Machine) assignTo(x RV, t types.Type) Value {
	v := x.get()
	if types.IsInterface(t) && !types.IsInterface(x.T) {
		return Iface{T: x.T, V: v}
	}
	return v
}

func (m *Machine) rvElem(rv RV) Value {
	m.rvKindCheck(rv, "Elem")
	switch u := rv.T.Underlying().(type) {
	case *types.Pointer:
		p, _ := rv.get().(*Value)
		if p == nil {
			return RV{}
		}
		return RV{T: u.Elem(), P: p}
	case *types.Interface:
		iv := rv.get().(Iface)
		if iv.T == nil {
			return RV{}
		}
		return RV{T: iv.T, V: iv.V}
	}
	m.goPanic("reflect: call of reflect.Value.Elem on " + rv.T.String() + " Value")
	return nil
}

func (m *Machine) equalOrNil(a, b Value) *Term {
	switch a.(type) {
	case Slice:
		return m.ctx.Bool(isNil(a))
	}
	return m.equal(a, b)
}

// deepEqual implements reflect.DeepEqual on interface operands (symbolic result).
func (m *Machine) deepEqual(a, b Value, d int) *Term {
	c := m.ctx
	if d > 40 {
		m.unsupported("DeepEqual depth")
	}
	switch x := a.(type) {
	case Iface:
		y, ok := b.(Iface)
		if !ok {
			return c.False
		}
		if x.T == nil || y.T == nil {
			return c.Bool(x.T == nil && y.T == nil)
		}
		if !types.Identical(x.T, y.T) {
			return c.False
		}
		return m.deepEqual(x.V, y.V, d+1)
	case *Value:
		y, ok := b.(*Value)
		if !ok {
			return c.False
		}
		if x == nil || y == nil {
			return c.Bool(x == y)
		}
		if x == y {
			return c.True
		}
		return m.deepEqual(*x, *y, d+1)
	case Struct:
		y := b.(Struct)
		r := c.True
		for i := range x {
			r = c.And(r, m.deepEqual(x[i], y[i], d+1))
		}
		return r
	case Array:
		y := b.(Array)
		r := c.True
		for i := range x {
			r = c.And(r, m.deepEqual(x[i], y[i], d+1))
		}
		return r
	case Slice:
		y := b.(Slice)
		if (x.V == nil) != (y.V == nil) || len(x.V) != len(y.V) {
			return c.False
		}
		r := c.True
		for i := range x.V {
			r = c.And(r, m.deepEqual(x.V[i], y.V[i], d+1))
		}
		return r
	case *Map:
		y := b.(*Map)
		if (x == nil) != (y == nil) {
			return c.False
		}
		if x == nil {
			return c.True
		}
		if len(x.E) != len(y.E) {
			return c.False
		}
		r := c.True
		for _, e := range x.E {
			v, ok := m.mapGet(y, e.K)
			if !ok {
				return c.False
			}
			r = c.And(r, m.deepEqual(e.V, v, d+1))
		}
		return r
	case RV:
		m.unsupported("DeepEqual on reflect.Value")
	}
	if _, ok := a.(*Term); ok {
		return m.equal(a, b)
	}
	if _, ok := a.(Str); ok {
		return m.equal(a, b)
	}
	if isNil(a) || isNil(b) {
		return c.Bool(isNil(a) && isNil(b))
	}
	panic(fmt.Sprintf("deepEqual: %T", a))
}
