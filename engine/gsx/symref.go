package gsx

import "fmt"

// SymRef is a pointer to elems[idx] with a symbolic index (bounds already checked).
// Loads become an ite-chain; stores update every candidate element under a guard.
type SymRef struct {
	elems []Value
	idx   *Term
}

// symRefOK reports whether elems can be addressed symbolically (all scalar terms of one sort).
func symRefOK(elems []Value) bool {
	if len(elems) == 0 || len(elems) > 1024 {
		return false
	}
	t0, ok := elems[0].(*Term)
	if !ok {
		return false
	}
	for _, e := range elems {
		t, ok := e.(*Term)
		if !ok || t.S != t0.S || t.W != t0.W {
			return false
		}
	}
	return true
}

func (m *Machine) symIndexAddr(elems []Value, i *Term, what string) Value {
	c := m.ctx
	n := len(elems)
	i = m.rewrite(i)
	if i.IsConst() {
		if i.C >= uint64(n) {
			m.goPanic(fmt.Sprintf("index out of range [%d] with length %d", int64(i.C), n))
		}
		return &elems[i.C]
	}
	m.require(c.Cmp(OULt, i, c.BV(uint64(n), 64)), "panic:index", fmt.Sprintf("index out of range [%s] with length %d", what, n))
	if symRefOK(elems) {
		return &SymRef{elems: elems, idx: i}
	}
	k := int(m.concretize(i, "index"))
	return &elems[k]
}

func (m *Machine) loadRef(r *SymRef) Value {
	return m.selectChain(r.elems, r.idx, 0)
}

func (m *Machine) storeRef(r *SymRef, v Value) {
	c := m.ctx
	nv := v.(*Term)
	lo, hi := 0, len(r.elems)-1
	m.refreshFacts()
	if rg, ok := m.rangeOf(r.idx, 0); ok {
		if rg.lo < uint64(len(r.elems)) && int(rg.lo) > lo {
			lo = int(rg.lo)
		}
		if rg.hi < uint64(hi) {
			hi = int(rg.hi)
		}
	}
	if hi-lo > 64 {
		k := int(m.concretize(r.idx, "symbolic store index"))
		m.store(&r.elems[k], nv)
		return
	}
	for k := lo; k <= hi; k++ {
		old := r.elems[k].(*Term)
		m.store(&r.elems[k], c.Ite(c.Eq(r.idx, c.BV(uint64(k), 64)), nv, old))
	}
}

// asPtr turns any pointer-like value into a concrete cell pointer.
func (m *Machine) asPtr(v Value, what string) *Value {
	switch p := v.(type) {
	case *Value:
		return p
	case *SymRef:
		k := int(m.concretize(p.idx, "pointer index"))
		return &p.elems[k]
	case nil:
		return nil
	}
	m.unsupported("%s through %T", what, v)
	return nil
}
