package gsx

import (
	"fmt"
	"go/token"
	"go/types"
	"os"
	"sort"
	"strings"
	"sync"
	"time"

	"golang.org/x/tools/go/packages"
	"golang.org/x/tools/go/ssa"
	"golang.org/x/tools/go/ssa/ssautil"
	"golang.org/x/tools/go/types/typeutil"
)

// Program is the loaded SSA of the repository plus harness overlay.
type Program struct {
	Prog *ssa.Program
	Pkgs []*packages.Package
	Fset *token.FileSet

	MaxConcretize int
	MaxAlloc      int
	MaxSymLen     int
	MapOrderPerm  bool
	TimerRace     bool
	Segmentation  bool
	SegCuts       int // with Segmentation: at most this many short reads per connection (0 = unlimited)
	StubPkgs      map[string]bool
	Params        map[string]int
	RepoPrefix    string
	RepoDir       string

	mu          sync.Mutex
	methodCache typeutil.Map // types.Type -> map[string]*ssa.Function
	implCache   map[[2]types.Type]bool
	InitPkgs    map[string]bool
	LoadTime    time.Duration
}

// Load loads patterns from dir with overlay files (path -> contents).
func Load(dir string, overlay map[string][]byte, patterns ...string) (*Program, error) {
	t0 := time.Now()
	cfg := &packages.Config{
		Mode:    packages.LoadAllSyntax,
		Dir:     dir,
		Overlay: overlay,
		Env:     append(os.Environ(), "GOFLAGS=-mod=mod", "GOPROXY=off", "GOSUMDB=off", "GOTOOLCHAIN=local"),
	}
	pkgs, err := packages.Load(cfg, patterns...)
	if err != nil {
		return nil, err
	}
	var errs []string
	packages.Visit(pkgs, nil, func(p *packages.Package) {
		for _, e := range p.Errors {
			errs = append(errs, e.Error())
		}
	})
	if len(errs) > 0 {
		return nil, fmt.Errorf("load errors:\n%s", strings.Join(errs, "\n"))
	}
	prog, _ := ssautil.AllPackages(pkgs, ssa.InstantiateGenerics)
	prog.Build()
	p := &Program{Prog: prog, Pkgs: pkgs, Fset: prog.Fset, MaxConcretize: 300, MaxAlloc: 1 << 20, MaxSymLen: 3,
		implCache: map[[2]types.Type]bool{}, RepoPrefix: "github.com/gopcua/opcua", RepoDir: dir}
	p.InitPkgs = map[string]bool{}
	p.StubPkgs = map[string]bool{"github.com/gopcua/opcua/stats": true, "expvar": true, "log": true}
	for _, s := range []string{"errors", "io", "strconv", "unicode/utf8", "encoding/binary", "encoding/base64", "encoding/hex",
		"sort", "math", "strings", "bytes", "slices", "maps", "math/bits", "internal/itoa", "internal/stringslite", "cmp",
		"golang.org/x/exp/slices", "golang.org/x/exp/maps", "golang.org/x/exp/constraints", "iter", "context", "internal/bytealg", "unsafe"} {
		p.InitPkgs[s] = true
	}
	p.LoadTime = time.Since(t0)
	return p, nil
}

func (p *Program) shouldInit(path string) bool {
	return p.InitPkgs[path] || strings.HasPrefix(path, p.RepoPrefix)
}

func (p *Program) lookupMethod(t types.Type, meth *types.Func) *ssa.Function {
	p.mu.Lock()
	defer p.mu.Unlock()
	var mm map[string]*ssa.Function
	if x := p.methodCache.At(t); x != nil {
		mm = x.(map[string]*ssa.Function)
	} else {
		mm = map[string]*ssa.Function{}
		p.methodCache.Set(t, mm)
	}
	key := meth.Id()
	if f, ok := mm[key]; ok {
		return f
	}
	sel := p.Prog.MethodSets.MethodSet(t).Lookup(meth.Pkg(), meth.Name())
	var f *ssa.Function
	if sel != nil {
		f = p.Prog.MethodValue(sel)
	}
	mm[key] = f
	return f
}

func (p *Program) implements(t types.Type, it *types.Interface) bool {
	p.mu.Lock()
	defer p.mu.Unlock()
	k := [2]types.Type{t, it}
	if v, ok := p.implCache[k]; ok {
		return v
	}
	v := types.Implements(t, it)
	p.implCache[k] = v
	return v
}

// FindFunc finds a package-level function "pkgpath.Name".
func (p *Program) FindFunc(pkgPath, name string) *ssa.Function {
	for _, pk := range p.Prog.AllPackages() {
		if pk.Pkg.Path() == pkgPath {
			return pk.Func(name)
		}
	}
	return nil
}

func (p *Program) FindPkg(pkgPath string) *ssa.Package {
	for _, pk := range p.Prog.AllPackages() {
		if pk.Pkg.Path() == pkgPath {
			return pk
		}
	}
	return nil
}

// ---- exploration ----

type Options struct {
	Workers    int
	Solver     string
	TimeoutMs  int
	MaxSteps   int
	Unwind     int
	MaxDepth   int
	MaxPaths   int
	Deadline   time.Time
	Preempt    int
	Verbose    bool
	SolverLog  string
	CrossCheck string // second solver for final obligations
	StopOnViolation bool
	ProfileForks bool
}

type HarnessReport struct {
	Name       string
	Paths      map[string]int // by end kind
	Violations []*Violation
	Incon      []string
	Reached    map[string]bool
	Samples    []string
	Obs        []string
	Decisions  int64
	NdMax      int
}

type Report struct {
	Harness    map[string]*HarnessReport
	Queries    int
	Sat, Unsat, Unknown int
	SolverTime time.Duration
	Wall       time.Duration
	Instrs     int64
	Funcs      map[string]int
	SolverErrors []string
	TimedOut   bool
	ForkSites  map[string]int
}

type job struct {
	harness string
	fn      *ssa.Function
	prefix  []Choice
}

// Explore runs every harness to completion (all paths) on a pool of workers.
func (p *Program) Explore(entries []*ssa.Function, opt Options) *Report {
	t0 := time.Now()
	if opt.Workers <= 0 {
		opt.Workers = 8
	}
	rep := &Report{Harness: map[string]*HarnessReport{}, Funcs: map[string]int{}, ForkSites: map[string]int{}}
	for _, e := range entries {
		rep.Harness[e.Name()] = &HarnessReport{Name: e.Name(), Paths: map[string]int{}, Reached: map[string]bool{}}
	}
	var mu sync.Mutex
	cond := sync.NewCond(&mu)
	var queue []job
	active := 0
	npaths := 0
	for _, e := range entries {
		queue = append(queue, job{harness: e.Name(), fn: e})
	}
	seenSites := map[string]bool{}
	var wg sync.WaitGroup
	for w := 0; w < opt.Workers; w++ {
		wg.Add(1)
		go func(wid int) {
			defer wg.Done()
			var m *Machine
			defer func() {
				if m != nil {
					mu.Lock()
					rep.Queries += m.solver.NQueries
					rep.Sat += m.solver.NSat
					rep.Unsat += m.solver.NUnsat
					rep.Unknown += m.solver.NUnknown
					rep.SolverTime += m.solver.Time
					rep.Instrs += m.Stats.Instrs
					rep.SolverErrors = append(rep.SolverErrors, m.solver.Errors...)
					for k, v := range m.Stats.Funcs {
						rep.Funcs[k] += v
					}
					for k, v := range m.Stats.ForkSites {
						rep.ForkSites[k] += v
					}
					mu.Unlock()
					m.solver.Close()
				}
			}()
			for {
				mu.Lock()
				for len(queue) == 0 && active > 0 {
					cond.Wait()
				}
				if len(queue) == 0 {
					mu.Unlock()
					cond.Broadcast()
					return
				}
				if (opt.MaxPaths > 0 && npaths >= opt.MaxPaths) || (!opt.Deadline.IsZero() && time.Now().After(opt.Deadline)) {
					rep.TimedOut = true
					queue = nil
					mu.Unlock()
					cond.Broadcast()
					return
				}
				// depth-first: take the newest job
				j := queue[len(queue)-1]
				queue = queue[:len(queue)-1]
				active++
				npaths++
				mu.Unlock()

				if m == nil {
					var err error
					m, err = p.NewMachine(opt)
					if err != nil {
						mu.Lock()
						hr := rep.Harness[j.harness]
						hr.Incon = append(hr.Incon, "machine init: "+err.Error())
						active--
						mu.Unlock()
						cond.Broadcast()
						return
					}
				}
				res := m.RunPath(j.fn, j.prefix)

				mu.Lock()
				hr := rep.Harness[j.harness]
				hr.Paths[res.Kind]++
				hr.Decisions += int64(m.depth)
				if len(m.ndlog) > hr.NdMax {
					hr.NdMax = len(m.ndlog)
				}
				if res.Kind == "unsupported" || res.Kind == "unwind" || res.Kind == "steps" || res.Kind == "engine" {
					hr.Incon = append(hr.Incon, res.Kind+": "+res.Msg)
				}
				hr.Incon = append(hr.Incon, m.incon...)
				for k := range m.reached {
					hr.Reached[k] = true
				}
				for _, v := range m.viol {
					key := j.harness + "|" + v.Kind + "|" + v.Site + "|" + v.Pos + "|" + v.Msg
					if !seenSites[key] {
						seenSites[key] = true
						hr.Violations = append(hr.Violations, v)
					}
				}
				if len(hr.Samples) < 4 {
					hr.Samples = append(hr.Samples, m.sample(res))
				}
				if len(hr.Obs) < 8 {
					for _, o := range m.observed {
						hr.Obs = append(hr.Obs, o.Tag+"="+o.Val)
					}
				}
				for _, nw := range m.newWork {
					queue = append(queue, job{harness: j.harness, fn: j.fn, prefix: nw})
				}
				active--
				if opt.Verbose {
					fmt.Fprintf(os.Stderr, "[w%d] %s path %d: %s %s (queue %d) prefix=%v\n", wid, j.harness, npaths, res.Kind, res.Msg, len(queue), m.prefix)
				}
				mu.Unlock()
				cond.Broadcast()
			}
		}(w)
	}
	wg.Wait()
	rep.Wall = time.Since(t0)
	for _, hr := range rep.Harness {
		hr.Incon = dedup(hr.Incon)
	}
	return rep
}

func dedup(s []string) []string {
	seen := map[string]bool{}
	var out []string
	for _, x := range s {
		if !seen[x] {
			seen[x] = true
			out = append(out, x)
		}
	}
	sort.Strings(out)
	return out
}

func (m *Machine) sample(res pathEnd) string {
	var sb strings.Builder
	fmt.Fprintf(&sb, "end=%s decisions=%d nd=%d pc=[", res.Kind, m.depth, len(m.ndlog))
	for i, t := range m.pc {
		if i >= 6 {
			sb.WriteString(" …")
			break
		}
		s := t.String()
		if len(s) > 160 {
			s = s[:160] + "…"
		}
		sb.WriteString(" " + s)
	}
	sb.WriteString(" ]")
	return sb.String()
}

// NewMachine creates a worker machine and runs the package initialisers concretely.
func (p *Program) NewMachine(opt Options) (*Machine, error) {
	ctx := NewCtx()
	kind := opt.Solver
	if kind == "" {
		kind = "z3"
	}
	to := opt.TimeoutMs
	if to == 0 {
		to = 30000
	}
	s, err := NewSolver(ctx, kind, to)
	if err != nil {
		return nil, err
	}
	if opt.SolverLog != "" {
		f, _ := os.Create(fmt.Sprintf("%s.%p", opt.SolverLog, s))
		s.Log = f
	}
	m := &Machine{P: p, ctx: ctx, solver: s, globals: map[*ssa.Global]*Value{}, infos: map[*ssa.Function]*fnInfo{},
		consts: map[*ssa.Const]Value{}, MaxSteps: opt.MaxSteps, Unwind: opt.Unwind, MaxDepth: opt.MaxDepth, PreemptBound: opt.Preempt}
	if m.MaxSteps == 0 {
		m.MaxSteps = 5_000_000
	}
	if m.Unwind == 0 {
		m.Unwind = 5000
	}
	if m.MaxDepth == 0 {
		m.MaxDepth = 400
	}
	m.Stats.Funcs = map[string]int{}
	if opt.ProfileForks {
		m.Stats.ForkSites = map[string]int{}
	}
	m.Intr = map[string]Intrinsic{}
	if os.Getenv("GSX_SLOW") != "" {
		s.SlowThreshold = 2 * time.Second
		s.OnSlow = func(d time.Duration) { fmt.Fprintf(os.Stderr, "SLOW %v [%s] @ %s\n", d, m.lastWhat, m.where()) }
	}
	registerIntrinsics(m)
	// run initialisers
	if err := m.runInits(); err != nil {
		s.Close()
		return nil, err
	}
	return m, nil
}

func (m *Machine) resetPath() {
	m.pc = m.pc[:0]
	m.depth = 0
	m.newWork = nil
	m.ndlog = nil
	m.steps = 0
	m.syncs = map[*Value]*syncState{}
	m.frozen = nil
	m.tcp = map[*Value]*tcpModel{}
	m.timers = nil
	m.clock = nil
	m.observed = nil
	m.reached = map[string]bool{}
	m.viol = nil
	m.incon = nil
	m.allocBudget = nil
	m.callDepth = 0
	m.curFrame = nil
	m.preempts = 0
	m.posCount = nil
	m.entryCount = nil
	m.syncSeq = 0
	m.delays = nil
	m.ctx.nfresh = 0
	m.pendingEnd = nil
	m.opaqueAlloc = false
	m.uf = nil
	m.crypto = nil
	m.divMemo = nil
	m.fmtOpaque = 0
	m.timerRace = m.P.TimerRace
	m.fixedClock = false
	m.horizonNs = 0
	m.preemptOff = false
	m.clockTick = 0
	m.aborting = false
	g0 := &G{id: 0, started: true, resume: make(chan struct{})}
	m.gs = []*G{g0}
	m.cur = g0
	m.nextGID = 0
	m.ghost = map[string]Value{}
	m.timerOf = map[*Value]*simTimer{}
	m.fmtMemo = map[*Term]Str{}
	m.hornerOf = map[*Term]*Term{}
	m.defEq = map[*Term]*Term{}
	m.rwMemo = nil
	m.facts = nil
	m.factsLen = 0
}

func (m *Machine) runInits() error {
	m.resetPath()
	m.journalOn = false
	var res pathEnd
	func() {
		defer func() {
			if r := recover(); r != nil {
				if pe, ok := r.(pathEnd); ok {
					res = pe
					return
				}
				if os.Getenv("GSX_TRACE") != "" {
					panic(r)
				}
				res = pathEnd{"engine", fmt.Sprintf("%v @ %s", r, m.where())}
			}
		}()
		for _, pk := range m.P.Prog.AllPackages() {
			if m.P.shouldInit(pk.Pkg.Path()) {
				if f := pk.Func("init"); f != nil {
					m.callFn(nil, f, nil, nil, nil)
				}
			}
		}
		res = pathEnd{"done", ""}
	}()
	if res.Kind != "done" {
		return fmt.Errorf("package init: %s: %s", res.Kind, res.Msg)
	}
	return nil
}

// RunPath executes fn along prefix, extending it depth-first.
func (m *Machine) RunPath(fn *ssa.Function, prefix []Choice) (res pathEnd) {
	m.resetPath()
	m.prefix = append([]Choice{}, prefix...)
	m.journalOn = true
	m.harness = fn.Name()
	defer func() {
		if r := recover(); r != nil {
			switch x := r.(type) {
			case pathEnd:
				res = x
			case goAbort:
				if pe, ok := m.pendingEnd.(pathEnd); ok {
					res = pe
				} else {
					res = pathEnd{"engine", fmt.Sprintf("goroutine failure: %v", m.pendingEnd)}
				}
			default:
				res = pathEnd{"engine", fmt.Sprintf("engine panic: %v @ %s", r, m.where())}
				if os.Getenv("GSX_TRACE") != "" {
					panic(r)
				}
			}
		}
		m.killAll()
		m.rollback()
		m.journalOn = false
	}()
	m.callFn(nil, fn, nil, nil, nil)
	m.drain()
	return pathEnd{"done", ""}
}

// ---- reporting ----

func (m *Machine) site() (site, pos string, stack []string) {
	fr := m.curFrame
	for f := fr; f != nil; f = f.caller {
		stack = append(stack, f.fn.String())
	}
	// innermost repository function that is not a harness
	for f := fr; f != nil; f = f.caller {
		if f.fn.Pkg != nil && strings.HasPrefix(f.fn.Pkg.Pkg.Path(), m.P.RepoPrefix) {
			site = f.fn.String()
			break
		}
		if f.fn.Pkg == nil {
			// synthetic wrapper / instantiated generic
			if o := f.fn.Origin(); o != nil && o.Pkg != nil && strings.HasPrefix(o.Pkg.Pkg.Path(), m.P.RepoPrefix) {
				site = f.fn.String()
				break
			}
		}
	}
	if site == "" && fr != nil {
		site = fr.fn.String()
	}
	if m.curPos.IsValid() {
		p := m.P.Fset.Position(m.curPos)
		pos = fmt.Sprintf("%s:%d", p.Filename, p.Line)
	}
	return
}

func (m *Machine) ndTerms() []*Term {
	var ts []*Term
	for _, r := range m.ndlog {
		for _, t := range r.Terms {
			ts = append(ts, m.rewrite(t))
		}
	}
	return ts
}

func (m *Machine) ndVals(vals map[int]uint64) []NdVal {
	var out []NdVal
	for _, r := range m.ndlog {
		nv := NdVal{Tag: r.Tag, Kind: r.Kind}
		for _, t := range r.Terms {
			t = m.rewrite(t)
			if t.IsConst() {
				nv.Vals = append(nv.Vals, t.C)
			} else {
				nv.Vals = append(nv.Vals, vals[t.ID])
			}
		}
		out = append(out, nv)
	}
	return out
}

// report records a violation that is definite on the current path (model of pc).
func (m *Machine) report(kind, msg string, definite bool) {
	if m.concreteEnv != nil {
		m.viol = append(m.viol, m.mkViolation(kind, msg, nil, true))
		return
	}
	if !m.journalOn {
		return
	}
	r := m.solver.Check(m.pc, m.ctx.True)
	if r != Sat {
		if r == Unknown {
			m.incon = append(m.incon, "solver unknown (model for "+kind+") @ "+m.where())
		}
		m.solver.DoneModel()
		return
	}
	vals, err := m.solver.Values(m.ndTerms())
	if err != nil {
		m.incon = append(m.incon, "model error: "+err.Error())
		return
	}
	m.viol = append(m.viol, m.mkViolation(kind, msg, vals, definite))
}

// reportModel records a violation using the model of the Sat query just made.
func (m *Machine) reportModel(kind, msg string, definite bool) {
	vals, err := m.solver.Values(m.ndTerms())
	if err != nil {
		m.incon = append(m.incon, "model error: "+err.Error())
		return
	}
	m.viol = append(m.viol, m.mkViolation(kind, msg, vals, definite))
}

func (m *Machine) mkViolation(kind, msg string, vals map[int]uint64, definite bool) *Violation {
	site, pos, stack := m.site()
	v := &Violation{Harness: m.harness, Kind: kind, Msg: msg, Site: site, Pos: pos, Stack: stack, Definite: definite, Preempts: m.preempts,
		Prefix: append([]Choice{}, m.prefix[:min(m.depth, len(m.prefix))]...), Delays: append([]DelaySite{}, m.delays...)}
	if vals != nil {
		v.Nd = m.ndVals(vals)
	}
	for i, t := range m.pc {
		if i >= 12 {
			break
		}
		s := t.String()
		if len(s) > 200 {
			s = s[:200] + "…"
		}
		v.PathCond = append(v.PathCond, s)
	}
	return v
}
