package gsx

import (
	"go/types"
	"sync"

	"golang.org/x/tools/go/ssa"
)

// extra Machine state lives here to keep interp.go focused.
type machineExtra struct{}

// fields referenced across files (declared on Machine through embedding would
// complicate initialisation; they are plain fields instead, see below).

// time.Time is modelled abstractly as Struct{wall, ext, loc}:
//   wall = 1 if the value was produced by Unix/Now (non-zero Time), 0 for Time{}
//   ext  = nanoseconds since the Unix epoch (signed 64 bit)
//   loc  = *Location (nil = UTC as in the real representation)
// Contract assumed: Unix(0,n).UTC().UnixNano() == n for every int64 n;
// Time{}.IsZero(); a Time built from Unix/Now is never IsZero (the real zero
// instant, year 1, is outside the int64-nanosecond range).

func (m *Machine) mkTime(ns *Term, loc Value) Struct {
	if loc == nil {
		loc = (*Value)(nil)
	}
	return Struct{m.ctx.BV(1, 64), ns, loc}
}

func (m *Machine) timeNow() Value {
	c := m.ctx
	if m.fixedClock {
		// a harness that does not depend on time: concrete, strictly increasing instants
		m.clockTick++
		t := c.BV(1_700_000_000_000_000_000+m.clockTick*1_000_000, 64)
		m.clock = t
		m.ghost["clock.last"] = t
		return m.mkTime(t, nil)
	}
	t := m.fresh("env:clock", "u64", 64)
	if m.clock != nil {
		m.pc = append(m.pc, c.Cmp(OSLe, m.clock, t))
	}
	// stay well inside the int64-nanosecond range so that Add cannot overflow
	m.pc = append(m.pc, c.Cmp(OSLe, c.BV(0, 64), t))
	m.pc = append(m.pc, c.Cmp(OSLe, t, c.BV(1<<62, 64)))
	m.clock = t
	m.ghost["clock.last"] = t
	return m.mkTime(t, nil)
}

func tm(v Value) Struct {
	return v.(Struct)
}

func registerTime(m *Machine) {
	I := m.Intr
	c := m.ctx
	// vfFixedClock(on): time.Now returns concrete increasing instants instead of symbolic ones
	I["vfFixedClock"] = func(m *Machine, fr *frame, a []Value, _ *ssa.CallCommon) Value {
		m.fixedClock = a[0].(*Term).IsTrue()
		return nil
	}
	// vfPreempt(on): forced context switches are explored only while on (default on); lets a
	// harness keep its sequential set-up phase out of the schedule exploration
	I["vfPreempt"] = func(m *Machine, fr *frame, a []Value, _ *ssa.CallCommon) Value {
		m.preemptOff = !a[0].(*Term).IsTrue()
		return nil
	}
	// vfTimeHorizon(ms): timers with a longer (concrete) duration never fire in this scenario
	I["vfTimeHorizon"] = func(m *Machine, fr *frame, a []Value, _ *ssa.CallCommon) Value {
		m.horizonNs = int64(a[0].(*Term).C) * 1_000_000
		return nil
	}
	// vfSettle(): the other goroutines run until each of them is blocked or finished
	I["vfSettle"] = func(m *Machine, fr *frame, a []Value, _ *ssa.CallCommon) Value {
		m.drain()
		return nil
	}
	I["time.Now"] = func(m *Machine, fr *frame, a []Value, _ *ssa.CallCommon) Value { return m.timeNow() }
	I["time.Unix"] = func(m *Machine, fr *frame, a []Value, _ *ssa.CallCommon) Value {
		sec, nsec := a[0].(*Term), a[1].(*Term)
		ns := c.Bin(OAdd, c.Bin(OMul, sec, c.BV(1_000_000_000, 64)), nsec)
		return m.mkTime(ns, nil)
	}
	I["time.UnixMilli"] = func(m *Machine, fr *frame, a []Value, _ *ssa.CallCommon) Value {
		return m.mkTime(c.Bin(OMul, a[0].(*Term), c.BV(1_000_000, 64)), nil)
	}
	id := func(m *Machine, fr *frame, a []Value, _ *ssa.CallCommon) Value { return a[0] }
	I["(time.Time).UTC"] = id
	I["(time.Time).Local"] = id
	I["(time.Time).In"] = id
	I["(time.Time).Round"] = id
	I["(time.Time).Truncate"] = id
	I["(time.Time).UnixNano"] = func(m *Machine, fr *frame, a []Value, _ *ssa.CallCommon) Value { return tm(a[0])[1] }
	I["(time.Time).Unix"] = func(m *Machine, fr *frame, a []Value, _ *ssa.CallCommon) Value {
		return c.Bin(OSDiv, tm(a[0])[1].(*Term), c.BV(1_000_000_000, 64))
	}
	I["(time.Time).UnixMilli"] = func(m *Machine, fr *frame, a []Value, _ *ssa.CallCommon) Value {
		return c.Bin(OSDiv, tm(a[0])[1].(*Term), c.BV(1_000_000, 64))
	}
	I["(time.Time).IsZero"] = func(m *Machine, fr *frame, a []Value, _ *ssa.CallCommon) Value {
		return c.Eq(tm(a[0])[0].(*Term), c.BV(0, 64))
	}
	I["(time.Time).Add"] = func(m *Machine, fr *frame, a []Value, _ *ssa.CallCommon) Value {
		t := tm(a[0])
		return Struct{t[0], c.Bin(OAdd, t[1].(*Term), a[1].(*Term)), t[2]}
	}
	I["(time.Time).Sub"] = func(m *Machine, fr *frame, a []Value, _ *ssa.CallCommon) Value {
		return c.Bin(OSub, tm(a[0])[1].(*Term), tm(a[1])[1].(*Term))
	}
	I["time.Since"] = func(m *Machine, fr *frame, a []Value, _ *ssa.CallCommon) Value {
		now := m.timeNow().(Struct)
		return c.Bin(OSub, now[1].(*Term), tm(a[0])[1].(*Term))
	}
	I["time.Until"] = func(m *Machine, fr *frame, a []Value, _ *ssa.CallCommon) Value {
		now := m.timeNow().(Struct)
		return c.Bin(OSub, tm(a[0])[1].(*Term), now[1].(*Term))
	}
	cmp := func(op Op, swap bool) Intrinsic {
		return func(m *Machine, fr *frame, a []Value, _ *ssa.CallCommon) Value {
			x, y := tm(a[0])[1].(*Term), tm(a[1])[1].(*Term)
			if swap {
				x, y = y, x
			}
			return c.Cmp(op, x, y)
		}
	}
	I["(time.Time).Before"] = cmp(OSLt, false)
	I["(time.Time).After"] = cmp(OSLt, true)
	I["(time.Time).Equal"] = func(m *Machine, fr *frame, a []Value, _ *ssa.CallCommon) Value {
		x, y := tm(a[0]), tm(a[1])
		return c.And(c.Eq(x[0].(*Term), y[0].(*Term)), c.Eq(x[1].(*Term), y[1].(*Term)))
	}
	I["(time.Time).Format"] = func(m *Machine, fr *frame, a []Value, _ *ssa.CallCommon) Value { return Str{S: "<time>"} }
	I["(time.Time).String"] = func(m *Machine, fr *frame, a []Value, _ *ssa.CallCommon) Value { return Str{S: "<time>"} }
	I["(time.Duration).String"] = func(m *Machine, fr *frame, a []Value, _ *ssa.CallCommon) Value { return Str{S: "<duration>"} }
	I["time.Sleep"] = func(m *Machine, fr *frame, a []Value, _ *ssa.CallCommon) Value {
		m.schedPoint()
		return nil
	}
	mkTimerStruct := func(m *Machine, typeName string, t *simTimer) Value {
		tt := m.P.namedType("time", typeName)
		cell := new(Value)
		st := m.zero(tt).(Struct)
		st[0] = t.ch
		*cell = st
		m.timerOf[cell] = t
		return cell
	}
	I["time.NewTimer"] = func(m *Machine, fr *frame, a []Value, _ *ssa.CallCommon) Value {
		t := m.newTimer(a[0].(*Term), false)
		m.ghost["timer.last.d"] = a[0]
		return mkTimerStruct(m, "Timer", t)
	}
	I["time.NewTicker"] = func(m *Machine, fr *frame, a []Value, _ *ssa.CallCommon) Value {
		m.require(c.Cmp(OSLt, c.BV(0, 64), a[0].(*Term)), "panic:ticker", "non-positive interval for NewTicker")
		t := m.newTimer(a[0].(*Term), true)
		return mkTimerStruct(m, "Ticker", t)
	}
	I["time.After"] = func(m *Machine, fr *frame, a []Value, _ *ssa.CallCommon) Value {
		return m.newTimer(a[0].(*Term), false).ch
	}
	I["time.Tick"] = func(m *Machine, fr *frame, a []Value, _ *ssa.CallCommon) Value {
		return m.newTimer(a[0].(*Term), true).ch
	}
	I["time.AfterFunc"] = func(m *Machine, fr *frame, a []Value, _ *ssa.CallCommon) Value {
		t := m.newTimer(a[0].(*Term), false)
		t.stopped = true // function timers are not fired by the model
		return mkTimerStruct(m, "Timer", t)
	}
	I["(*time.Timer).Stop"] = func(m *Machine, fr *frame, a []Value, _ *ssa.CallCommon) Value {
		t := m.timerOf[a[0].(*Value)]
		if t == nil {
			return c.False
		}
		was := !t.fired && !t.stopped
		t.stopped = true
		return c.Bool(was)
	}
	I["(*time.Timer).Reset"] = func(m *Machine, fr *frame, a []Value, _ *ssa.CallCommon) Value {
		t := m.timerOf[a[0].(*Value)]
		if t == nil {
			return c.False
		}
		was := !t.fired && !t.stopped
		t.stopped, t.fired = false, false
		t.d = a[1].(*Term)
		return c.Bool(was)
	}
	I["(*time.Ticker).Stop"] = func(m *Machine, fr *frame, a []Value, _ *ssa.CallCommon) Value {
		if t := m.timerOf[a[0].(*Value)]; t != nil {
			t.stopped = true
		}
		return nil
	}
	I["(*time.Ticker).Reset"] = func(m *Machine, fr *frame, a []Value, _ *ssa.CallCommon) Value { return nil }
}

// ---- freeze monitor (C20) ----

func (m *Machine) freeze(v Value, tag string) {
	if m.frozen == nil {
		m.frozen = map[*Value]string{}
	}
	seen := map[interface{}]bool{}
	var walk func(v Value)
	walk = func(v Value) {
		switch x := v.(type) {
		case *Value:
			if x == nil || seen[x] {
				return
			}
			seen[x] = true
			m.freezeCell(x, tag)
			walk(*x)
		case Struct:
			for i := range x {
				walk(x[i])
			}
		case Array:
			for i := range x {
				walk(x[i])
			}
		case Slice:
			full := x.V[:cap(x.V)]
			for i := range x.V {
				m.frozen[&full[i]] = tag
				walk(x.V[i])
			}
		case Iface:
			walk(x.V)
		case *Map:
			if x != nil && !seen[x] {
				seen[x] = true
				for _, e := range x.E {
					walk(e.V)
				}
			}
		}
	}
	walk(v)
}

func (m *Machine) freezeCell(p *Value, tag string) {
	switch x := (*p).(type) {
	case Struct:
		for i := range x {
			m.freezeCell(&x[i], tag)
		}
	case Array:
		for i := range x {
			m.freezeCell(&x[i], tag)
		}
	default:
		m.frozen[p] = tag
	}
}

func (m *Machine) checkFrozen(p *Value) {
	if tag, ok := m.frozen[p]; ok {
		m.report("frozen-write", "write to memory reachable from a delivered message ("+tag+")", true)
		delete(m.frozen, p)
	}
}

// ---- TCP model ----

// tcpModel is the byte stream behind a *net.TCPConn handed out by vfTCP.
type tcpModel struct {
	in      []*Term // bytes the peer will send
	pos     int
	eof     bool // after in is exhausted: EOF (true) or block forever (false)
	out     []*Term
	writes  [][]*Term
	wvals   []Value // every Write argument as given (Slice or LSlice)
	peer    *tcpModel // pipe: writes are appended to the peer's input
	cuts    int     // reads that returned fewer bytes than were available (segment boundaries used)
	byteWise bool   // every read returns one byte
	closed  bool
	segTag  string
}

func registerEnv(m *Machine) {
	I := m.Intr
	c := m.ctx
	// vfTCP(tag string, stream []byte) *net.TCPConn : a connection whose peer sends stream then EOF.
	I["vfTCP"] = func(m *Machine, fr *frame, a []Value, _ *ssa.CallCommon) Value {
		tt := m.P.namedType("net", "TCPConn")
		cell := new(Value)
		*cell = m.zero(tt)
		var in []*Term
		if sl, ok := a[1].(Slice); ok {
			in = sliceTerms(sl)
		}
		tm := &tcpModel{in: in, eof: true, segTag: m.concStr(a[0], "tag")}
		m.tcp[cell] = tm
		// methods promoted from the embedded net.conn receive the address of that field
		if st, ok := (*cell).(Struct); ok && len(st) > 0 {
			m.tcp[&st[0]] = tm
		}
		return cell
	}
	// vfTCPPair(tag) (*net.TCPConn, *net.TCPConn): two ends of one connection.
	I["vfTCPPair"] = func(m *Machine, fr *frame, a []Value, _ *ssa.CallCommon) Value {
		tt := m.P.namedType("net", "TCPConn")
		mk := func(suffix string) (*Value, *tcpModel) {
			cell := new(Value)
			*cell = m.zero(tt)
			tm := &tcpModel{segTag: m.concStr(a[0], "tag") + suffix}
			m.tcp[cell] = tm
			if st, ok := (*cell).(Struct); ok && len(st) > 0 {
				m.tcp[&st[0]] = tm
			}
			return cell, tm
		}
		ca, ta := mk(".a")
		cb, tb := mk(".b")
		ta.peer, tb.peer = tb, ta
		return Tuple{ca, cb}
	}
	// vfTimerRace(on): while on, a pending timer among the cases of a select may fire although other
	// cases are ready (time may pass at any moment); off: timers fire only when nothing else can run.
	I["vfTimerRace"] = func(m *Machine, fr *frame, a []Value, _ *ssa.CallCommon) Value {
		m.timerRace = a[0].(*Term).IsTrue()
		return nil
	}
	// vfTCPKeepOpen(conn): after the stream the peer stays silent instead of closing (reads block).
	I["vfTCPKeepOpen"] = func(m *Machine, fr *frame, a []Value, _ *ssa.CallCommon) Value {
		m.tcp[a[0].(*Value)].eof = false
		return nil
	}
	I["vfTCPByteWise"] = func(m *Machine, fr *frame, a []Value, _ *ssa.CallCommon) Value {
		m.tcp[a[0].(*Value)].byteWise = true
		return nil
	}
	I["vfTCPWritten"] = func(m *Machine, fr *frame, a []Value, _ *ssa.CallCommon) Value {
		t := m.tcp[a[0].(*Value)]
		out := make([]Value, len(t.out))
		for i, b := range t.out {
			out[i] = b
		}
		return Slice{V: out}
	}
	I["vfTCPWrites"] = func(m *Machine, fr *frame, a []Value, _ *ssa.CallCommon) Value {
		t := m.tcp[a[0].(*Value)]
		return c.BV(uint64(len(t.writes)), 64)
	}
	I["vfTCPWriteLen"] = func(m *Machine, fr *frame, a []Value, _ *ssa.CallCommon) Value {
		t := m.tcp[a[0].(*Value)]
		i := int(m.concreteInt(a[1].(*Term), "write index"))
		return m.lenOf(t.wvals[i])
	}
	// vfTCPFrame(conn, i) []byte: the i-th frame written to the connection.
	I["vfTCPFrame"] = func(m *Machine, fr *frame, a []Value, _ *ssa.CallCommon) Value {
		t := m.tcp[a[0].(*Value)]
		i := int(m.concreteInt(a[1].(*Term), "write index"))
		return t.wvals[i]
	}
	I["(*net.TCPConn).Read"] = func(m *Machine, fr *frame, a []Value, _ *ssa.CallCommon) Value {
		p, _ := a[0].(*Value)
		t := m.tcp[p]
		if t == nil {
			m.unsupported("Read on unmodelled TCPConn")
		}
		buf := a[1].(Slice)
		if t.closed {
			return Tuple{c.BV(0, 64), m.P.netClosedErr(m)}
		}
		rem := len(t.in) - t.pos
		if len(buf.V) == 0 {
			return Tuple{c.BV(0, 64), Iface{}} // poll.FD.Read: a zero-length read returns 0, nil
		}
		if rem == 0 {
			if t.eof {
				return Tuple{c.BV(0, 64), m.P.ioEOF(m)}
			}
			m.block(func() bool { return len(t.in) > t.pos || t.closed || t.eof }, "TCP read (peer silent)")
			if t.closed {
				return Tuple{c.BV(0, 64), m.P.netClosedErr(m)}
			}
			rem = len(t.in) - t.pos
			if rem == 0 {
				return Tuple{c.BV(0, 64), m.P.ioEOF(m)}
			}
		}
		if len(buf.V) == 0 {
			return Tuple{c.BV(0, 64), Iface{}}
		}
		maxn := rem
		if len(buf.V) < maxn {
			maxn = len(buf.V)
		}
		// segmentation: the kernel may return any 1..maxn bytes
		n := maxn
		switch {
		case t.byteWise:
			n = 1
			m.ndlog = append(m.ndlog, NdRec{Tag: "env:seg:" + t.segTag, Kind: "int", Terms: []*Term{c.BV(1, 64)}})
		case m.P.Segmentation && maxn > 1 && (m.P.SegCuts <= 0 || t.cuts < m.P.SegCuts):
			k := m.fresh("env:seg:"+t.segTag, "int", 64)
			m.pc = append(m.pc, c.Cmp(OSLe, c.BV(1, 64), k), c.Cmp(OSLe, k, c.BV(uint64(maxn), 64)))
			n = int(m.concretize(k, "segment length"))
			if n < maxn {
				t.cuts++
			}
		default:
			m.ndlog = append(m.ndlog, NdRec{Tag: "env:seg:" + t.segTag, Kind: "int", Terms: []*Term{c.BV(uint64(maxn), 64)}})
		}
		for i := 0; i < n; i++ {
			m.store(&buf.V[i], t.in[t.pos+i])
		}
		t.pos += n
		return Tuple{c.BV(uint64(n), 64), Iface{}}
	}
	I["(*net.TCPConn).Write"] = func(m *Machine, fr *frame, a []Value, _ *ssa.CallCommon) Value {
		p, _ := a[0].(*Value)
		t := m.tcp[p]
		if t == nil {
			m.unsupported("Write on unmodelled TCPConn")
		}
		if t.closed {
			return Tuple{c.BV(0, 64), m.P.netClosedErr(m)}
		}
		if ls, ok := a[1].(LSlice); ok {
			t.wvals = append(t.wvals, LSlice{Len: ls.Len, Cap: ls.Len, Head: append([]Value{}, ls.Head...)})
			t.writes = append(t.writes, nil)
			return Tuple{ls.Len, Iface{}}
		}
		bs := sliceTerms(a[1])
		if t.peer != nil {
			t.peer.in = append(append([]*Term{}, t.peer.in...), bs...)
		}
		t.out = append(t.out, bs...)
		t.writes = append(t.writes, append([]*Term{}, bs...))
		t.wvals = append(t.wvals, termSlice(bs))
		return Tuple{c.BV(uint64(len(bs)), 64), Iface{}}
	}
	nilErr := func(m *Machine, fr *frame, a []Value, _ *ssa.CallCommon) Value { return Iface{} }
	I["(*net.TCPConn).SetDeadline"] = nilErr
	I["(*net.TCPConn).SetReadDeadline"] = nilErr
	I["(*net.TCPConn).SetWriteDeadline"] = nilErr
	I["(*net.TCPConn).Close"] = func(m *Machine, fr *frame, a []Value, _ *ssa.CallCommon) Value {
		p, _ := a[0].(*Value)
		if t := m.tcp[p]; t != nil {
			t.closed = true
			if t.peer != nil {
				t.peer.eof = true
			}
		}
		return Iface{}
	}
	I["(*net.TCPConn).RemoteAddr"] = func(m *Machine, fr *frame, a []Value, _ *ssa.CallCommon) Value { return Iface{} }
	I["(*net.TCPConn).LocalAddr"] = func(m *Machine, fr *frame, a []Value, _ *ssa.CallCommon) Value { return Iface{} }
	for _, n := range []string{"Read", "Write", "SetDeadline", "SetReadDeadline", "SetWriteDeadline", "Close", "RemoteAddr", "LocalAddr"} {
		I["(*net.conn)."+n] = I["(*net.TCPConn)."+n]
	}
	// non-cryptographic randomness and UUIDs: a deterministic sequence of distinct values
	// (identifiers are only required to be distinct; their unpredictability is not modelled)
	next := func(m *Machine) uint64 {
		v, _ := m.ghost["env.rand.counter"].(*Term)
		n := uint64(0)
		if v != nil {
			n = v.C
		}
		n++
		m.ghost["env.rand.counter"] = c.BV(n, 64)
		return n
	}
	I["math/rand.Int31"] = func(m *Machine, fr *frame, a []Value, _ *ssa.CallCommon) Value {
		return c.BV((1000003*next(m)+12345)&0x7fffffff, 32)
	}
	I["math/rand.Uint32"] = func(m *Machine, fr *frame, a []Value, _ *ssa.CallCommon) Value {
		return c.BV((1000003*next(m)+12345)&0xffffffff, 32)
	}
	I["math/rand.Int31n"] = func(m *Machine, fr *frame, a []Value, _ *ssa.CallCommon) Value {
		n := m.concretize(a[0].(*Term), "Int31n")
		if n == 0 || n >= 1<<31 {
			m.goPanic("invalid argument to Int31n")
		}
		return c.BV((1000003*next(m)+12345)%n, 32)
	}
	I["math/rand.Intn"] = func(m *Machine, fr *frame, a []Value, _ *ssa.CallCommon) Value {
		n := m.concretize(a[0].(*Term), "Intn")
		if n == 0 || n >= 1<<62 {
			m.goPanic("invalid argument to Intn")
		}
		return c.BV((1000003*next(m)+12345)%n, 64)
	}
	I["github.com/google/uuid.New"] = func(m *Machine, fr *frame, a []Value, _ *ssa.CallCommon) Value {
		n := next(m)
		arr := make(Array, 16)
		for i := range arr {
			arr[i] = c.BV((n>>(uint(i%8)*8))&0xff^uint64(0xa5), 8)
		}
		return arr
	}
	// randomness
	I["(*crypto/rand.reader).Read"] = func(m *Machine, fr *frame, a []Value, _ *ssa.CallCommon) Value {
		buf := a[1].(Slice)
		bs := m.freshBytes("env:rand", len(buf.V))
		for i := range buf.V {
			m.store(&buf.V[i], bs[i])
		}
		return Tuple{c.BV(uint64(len(buf.V)), 64), Iface{}}
	}
	I["crypto/rand.Read"] = func(m *Machine, fr *frame, a []Value, _ *ssa.CallCommon) Value {
		buf := a[0].(Slice)
		bs := m.freshBytes("env:rand", len(buf.V))
		for i := range buf.V {
			m.store(&buf.V[i], bs[i])
		}
		return Tuple{c.BV(uint64(len(buf.V)), 64), Iface{}}
	}
}

func (p *Program) ioEOF(m *Machine) Value {
	g := p.FindPkg("io").Var("EOF")
	return m.load(m.global(g))
}

func (p *Program) netClosedErr(m *Machine) Value {
	return m.newError(Str{S: "use of closed network connection"}, Iface{})
}

var _ = types.Typ
var _ sync.Mutex
