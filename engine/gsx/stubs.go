package gsx

import (
	"fmt"
	"go/types"
	"strconv"
	"strings"

	"golang.org/x/tools/go/ssa"
)

func (m *Machine) zeroResult(sig *types.Signature) Value {
	switch sig.Results().Len() {
	case 0:
		return nil
	case 1:
		return m.zero(sig.Results().At(0).Type())
	}
	return m.zero(sig.Results())
}

func str(v Value) Str { return v.(Str) }

func (m *Machine) concStr(v Value, what string) string {
	s := v.(Str)
	if s.B != nil {
		bs := make([]byte, len(s.B))
		for i, b := range s.B {
			bs[i] = byte(m.concretize(b, what))
		}
		return string(bs)
	}
	return s.S
}

func (m *Machine) fresh(tag string, kind string, w int) *Term {
	// the sort is part of the name: the same tag and position may be a bool on one path and a
	// bit-vector on another, and a solver process outlives a path
	name := fmt.Sprintf("%s#%d", tag, len(m.ndlog))
	var t *Term
	if kind == "bool" {
		t = m.ctx.Var(name+":b", SBool, 0)
	} else {
		t = m.ctx.Var(fmt.Sprintf("%s:%d", name, w), SBV, w)
	}
	m.ndlog = append(m.ndlog, NdRec{Tag: tag, Kind: kind, Terms: []*Term{t}})
	return t
}

func (m *Machine) freshBytes(tag string, n int) []*Term {
	idx := len(m.ndlog)
	ts := make([]*Term, n)
	for i := range ts {
		ts[i] = m.ctx.Var(fmt.Sprintf("%s#%d[%d]", tag, idx, i), SBV, 8)
	}
	m.ndlog = append(m.ndlog, NdRec{Tag: tag, Kind: "bytes", Terms: ts})
	return ts
}

func registerIntrinsics(m *Machine) {
	I := m.Intr
	c := m.ctx
	// ---- harness API (matched by bare name, see callFn) ----
	nd := func(kind string, w int) Intrinsic {
		return func(m *Machine, fr *frame, a []Value, _ *ssa.CallCommon) Value {
			return m.fresh(m.concStr(a[0], "tag"), kind, w)
		}
	}
	I["vfU8"] = nd("u8", 8)
	I["vfU16"] = nd("u16", 16)
	I["vfU32"] = nd("u32", 32)
	I["vfU64"] = nd("u64", 64)
	I["vfBool"] = nd("bool", 0)
	I["vfInt"] = func(m *Machine, fr *frame, a []Value, _ *ssa.CallCommon) Value {
		t := m.fresh(m.concStr(a[0], "tag"), "int", 64)
		lo, hi := a[1].(*Term), a[2].(*Term)
		m.assume(c.And(c.Cmp(OSLe, lo, t), c.Cmp(OSLe, t, hi)))
		return t
	}
	I["vfBytes"] = func(m *Machine, fr *frame, a []Value, _ *ssa.CallCommon) Value {
		n := int(m.concreteInt(a[1].(*Term), "vfBytes len"))
		ts := m.freshBytes(m.concStr(a[0], "tag"), n)
		out := make([]Value, n)
		for i, t := range ts {
			out[i] = t
		}
		return Slice{V: out}
	}
	I["vfString"] = func(m *Machine, fr *frame, a []Value, _ *ssa.CallCommon) Value {
		n := int(m.concreteInt(a[1].(*Term), "vfString len"))
		ts := m.freshBytes(m.concStr(a[0], "tag"), n)
		if n == 0 {
			return Str{}
		}
		return Str{B: ts}
	}
	I["vfAssume"] = func(m *Machine, fr *frame, a []Value, _ *ssa.CallCommon) Value {
		m.assume(a[0].(*Term))
		return nil
	}
	I["vfAssert"] = func(m *Machine, fr *frame, a []Value, _ *ssa.CallCommon) Value {
		m.curPos = 0
		m.require(a[0].(*Term), "assert", m.concStr(a[1], "msg"))
		return nil
	}
	I["vfReach"] = func(m *Machine, fr *frame, a []Value, _ *ssa.CallCommon) Value {
		m.reached[m.concStr(a[0], "tag")] = true
		return nil
	}
	I["vfObserve"] = func(m *Machine, fr *frame, a []Value, _ *ssa.CallCommon) Value {
		m.observed = append(m.observed, Obs{Tag: m.concStr(a[0], "tag"), Val: m.show(a[1], 0)})
		return nil
	}
	I["vfConcrete"] = func(m *Machine, fr *frame, a []Value, _ *ssa.CallCommon) Value {
		t := a[0].(*Term)
		return c.BV(m.concretize(t, "vfConcrete"), int(t.W))
	}
	I["vfAllocBudget"] = func(m *Machine, fr *frame, a []Value, _ *ssa.CallCommon) Value {
		m.allocBudget = a[0].(*Term)
		return nil
	}
	I["vfAllocCheck"] = func(m *Machine, fr *frame, a []Value, _ *ssa.CallCommon) Value { return nil }
	I["vfFreeze"] = func(m *Machine, fr *frame, a []Value, _ *ssa.CallCommon) Value {
		m.freeze(a[0], m.concStr(a[1], "tag"))
		return nil
	}
	I["vfSymbolic"] = func(m *Machine, fr *frame, a []Value, _ *ssa.CallCommon) Value { return c.True }
	I["vfParam"] = func(m *Machine, fr *frame, a []Value, _ *ssa.CallCommon) Value {
		if v, ok := m.P.Params[m.concStr(a[0], "param")]; ok {
			return c.BV(uint64(int64(v)), 64)
		}
		return a[1]
	}
	I["vfGhostSet"] = func(m *Machine, fr *frame, a []Value, _ *ssa.CallCommon) Value {
		m.ghost[m.concStr(a[0], "key")] = a[1]
		return nil
	}
	I["vfGhostGet"] = func(m *Machine, fr *frame, a []Value, _ *ssa.CallCommon) Value {
		v, ok := m.ghost[m.concStr(a[0], "key")]
		if !ok {
			return c.BV(0, 64)
		}
		return v
	}

	// ---- sync ----
	I["(*sync.Mutex).Lock"] = func(m *Machine, fr *frame, a []Value, _ *ssa.CallCommon) Value {
		m.schedPoint()
		s := m.sync(a[0].(*Value))
		m.block(func() bool { return !s.locked }, "Mutex.Lock")
		s.locked = true
		s.owner = m.cur
		return nil
	}
	I["(*sync.Mutex).TryLock"] = func(m *Machine, fr *frame, a []Value, _ *ssa.CallCommon) Value {
		s := m.sync(a[0].(*Value))
		if s.locked {
			return c.False
		}
		s.locked = true
		return c.True
	}
	I["(*sync.Mutex).Unlock"] = func(m *Machine, fr *frame, a []Value, _ *ssa.CallCommon) Value {
		s := m.sync(a[0].(*Value))
		if !s.locked {
			m.goPanic("sync: unlock of unlocked mutex")
		}
		s.locked = false
		m.schedPoint()
		return nil
	}
	I["(*sync.RWMutex).Lock"] = func(m *Machine, fr *frame, a []Value, _ *ssa.CallCommon) Value {
		m.schedPoint()
		s := m.sync(a[0].(*Value))
		m.block(func() bool { return !s.locked && s.readers == 0 }, "RWMutex.Lock")
		s.locked = true
		return nil
	}
	I["(*sync.RWMutex).Unlock"] = func(m *Machine, fr *frame, a []Value, _ *ssa.CallCommon) Value {
		s := m.sync(a[0].(*Value))
		if !s.locked {
			m.goPanic("sync: Unlock of unlocked RWMutex")
		}
		s.locked = false
		m.schedPoint()
		return nil
	}
	I["(*sync.RWMutex).RLock"] = func(m *Machine, fr *frame, a []Value, _ *ssa.CallCommon) Value {
		m.schedPoint()
		s := m.sync(a[0].(*Value))
		m.block(func() bool { return !s.locked }, "RWMutex.RLock")
		s.readers++
		return nil
	}
	I["(*sync.RWMutex).RUnlock"] = func(m *Machine, fr *frame, a []Value, _ *ssa.CallCommon) Value {
		s := m.sync(a[0].(*Value))
		if s.readers == 0 {
			m.goPanic("sync: RUnlock of unlocked RWMutex")
		}
		s.readers--
		m.schedPoint()
		return nil
	}
	I["(*sync.Once).Do"] = func(m *Machine, fr *frame, a []Value, call *ssa.CallCommon) Value {
		s := m.sync(a[0].(*Value))
		if !s.onceDone {
			s.onceDone = true
			m.callValue(fr, a[1], nil, nil)
		}
		return nil
	}
	I["(*sync.WaitGroup).Add"] = func(m *Machine, fr *frame, a []Value, _ *ssa.CallCommon) Value {
		s := m.sync(a[0].(*Value))
		s.count += int(m.concreteInt(a[1].(*Term), "WaitGroup.Add"))
		if s.count < 0 {
			m.goPanic("sync: negative WaitGroup counter")
		}
		return nil
	}
	I["(*sync.WaitGroup).Done"] = func(m *Machine, fr *frame, a []Value, _ *ssa.CallCommon) Value {
		s := m.sync(a[0].(*Value))
		s.count--
		if s.count < 0 {
			m.goPanic("sync: negative WaitGroup counter")
		}
		return nil
	}
	I["(*sync.WaitGroup).Wait"] = func(m *Machine, fr *frame, a []Value, _ *ssa.CallCommon) Value {
		m.schedPoint()
		s := m.sync(a[0].(*Value))
		m.block(func() bool { return s.count == 0 }, "WaitGroup.Wait")
		return nil
	}
	I["(*sync.Cond).Wait"] = func(m *Machine, fr *frame, a []Value, _ *ssa.CallCommon) Value {
		p := a[0].(*Value)
		s := m.sync(p)
		// c.L.Unlock()
		lk := (*p).(Struct)[1].(Iface) // noCopy, L, notify, checker
		mu := m.sync(lk.V.(*Value))
		if !mu.locked {
			m.goPanic("sync: unlock of unlocked mutex (Cond.Wait)")
		}
		mu.locked = false
		w := &condWaiter{}
		s.condWait = append(append([]*condWaiter{}, s.condWait...), w)
		m.block(func() bool { return w.woken }, "Cond.Wait")
		m.block(func() bool { return !mu.locked }, "Cond.Wait relock")
		mu.locked = true
		return nil
	}
	// Signal wakes the longest-waiting goroutine (the runtime's notify list is first in, first
	// out), Broadcast all of them; a goroutine that starts waiting afterwards is not woken
	I["(*sync.Cond).Signal"] = func(m *Machine, fr *frame, a []Value, _ *ssa.CallCommon) Value {
		s := m.sync(a[0].(*Value))
		if len(s.condWait) > 0 {
			s.condWait[0].woken = true
			s.condWait = append([]*condWaiter{}, s.condWait[1:]...)
		}
		m.schedPoint()
		return nil
	}
	I["(*sync.Cond).Broadcast"] = func(m *Machine, fr *frame, a []Value, _ *ssa.CallCommon) Value {
		s := m.sync(a[0].(*Value))
		for _, w := range s.condWait {
			w.woken = true
		}
		s.condWait = nil
		m.schedPoint()
		return nil
	}
	I["(*sync.Pool).Get"] = func(m *Machine, fr *frame, a []Value, _ *ssa.CallCommon) Value {
		p := a[0].(*Value)
		st := (*p).(Struct)
		newf := st[len(st)-1]
		if isNil(newf) {
			return Iface{}
		}
		return m.callValue(fr, newf, nil, nil)
	}
	I["(*sync.Pool).Put"] = func(m *Machine, fr *frame, a []Value, _ *ssa.CallCommon) Value { return nil }

	// ---- sync/atomic ----
	for _, ty := range []string{"Int32", "Int64", "Uint32", "Uint64", "Uintptr"} {
		ty := ty
		I["sync/atomic.Load"+ty] = func(m *Machine, fr *frame, a []Value, _ *ssa.CallCommon) Value {
			m.schedPoint()
			return m.load(m.nonNil(a[0]))
		}
		I["sync/atomic.Store"+ty] = func(m *Machine, fr *frame, a []Value, _ *ssa.CallCommon) Value {
			m.schedPoint()
			m.store(m.nonNil(a[0]), a[1])
			return nil
		}
		I["sync/atomic.Add"+ty] = func(m *Machine, fr *frame, a []Value, _ *ssa.CallCommon) Value {
			m.schedPoint()
			p := m.nonNil(a[0])
			n := c.Bin(OAdd, (*p).(*Term), a[1].(*Term))
			m.store(p, n)
			return n
		}
		I["sync/atomic.Swap"+ty] = func(m *Machine, fr *frame, a []Value, _ *ssa.CallCommon) Value {
			m.schedPoint()
			p := m.nonNil(a[0])
			old := m.load(p)
			m.store(p, a[1])
			return old
		}
		I["sync/atomic.CompareAndSwap"+ty] = func(m *Machine, fr *frame, a []Value, _ *ssa.CallCommon) Value {
			m.schedPoint()
			p := m.nonNil(a[0])
			if m.branch(m.equal(*p, a[1])) {
				m.store(p, a[2])
				return c.True
			}
			return c.False
		}
	}
	I["sync/atomic.LoadPointer"] = func(m *Machine, fr *frame, a []Value, _ *ssa.CallCommon) Value {
		return m.load(m.nonNil(a[0]))
	}
	I["sync/atomic.StorePointer"] = func(m *Machine, fr *frame, a []Value, _ *ssa.CallCommon) Value {
		m.store(m.nonNil(a[0]), a[1])
		return nil
	}
	I["sync/atomic.SwapPointer"] = func(m *Machine, fr *frame, a []Value, _ *ssa.CallCommon) Value {
		p := m.nonNil(a[0])
		old := m.load(p)
		m.store(p, a[1])
		return old
	}
	I["sync/atomic.CompareAndSwapPointer"] = func(m *Machine, fr *frame, a []Value, _ *ssa.CallCommon) Value {
		p := m.nonNil(a[0])
		if m.branch(m.equal(*p, a[1])) {
			m.store(p, a[2])
			return c.True
		}
		return c.False
	}
	// atomic.Value: struct{ v any }
	I["(*sync/atomic.Value).Load"] = func(m *Machine, fr *frame, a []Value, _ *ssa.CallCommon) Value {
		p := m.nonNil(a[0])
		return (*p).(Struct)[0]
	}
	I["(*sync/atomic.Value).Store"] = func(m *Machine, fr *frame, a []Value, _ *ssa.CallCommon) Value {
		p := m.nonNil(a[0])
		if isNil(a[1]) {
			m.goPanic("sync/atomic: store of nil value into Value")
		}
		m.store(&(*p).(Struct)[0], a[1])
		return nil
	}
	I["internal/abi.NoEscape"] = func(m *Machine, fr *frame, a []Value, _ *ssa.CallCommon) Value { return a[0] }
	I["internal/abi.Escape"] = func(m *Machine, fr *frame, a []Value, _ *ssa.CallCommon) Value { return a[0] }
	I["runtime.KeepAlive"] = func(m *Machine, fr *frame, a []Value, _ *ssa.CallCommon) Value { return nil }
	I["runtime.Gosched"] = func(m *Machine, fr *frame, a []Value, _ *ssa.CallCommon) Value { return nil }
	I["runtime.Caller"] = func(m *Machine, fr *frame, a []Value, _ *ssa.CallCommon) Value {
		return Tuple{c.BV(0, 64), Str{S: "file.go"}, c.BV(1, 64), c.True}
	}
	I["os.Getenv"] = func(m *Machine, fr *frame, a []Value, _ *ssa.CallCommon) Value { return Str{} }
	I["internal/race.Enabled"] = nil
	delete(I, "internal/race.Enabled")

	// ---- math ----
	I["math.Float32bits"] = func(m *Machine, fr *frame, a []Value, _ *ssa.CallCommon) Value { return c.FToBits(a[0].(*Term)) }
	I["math.Float64bits"] = func(m *Machine, fr *frame, a []Value, _ *ssa.CallCommon) Value { return c.FToBits(a[0].(*Term)) }
	I["math.Float32frombits"] = func(m *Machine, fr *frame, a []Value, _ *ssa.CallCommon) Value {
		return c.FFromBits(a[0].(*Term))
	}
	I["math.Float64frombits"] = func(m *Machine, fr *frame, a []Value, _ *ssa.CallCommon) Value {
		return c.FFromBits(a[0].(*Term))
	}
	I["math.IsNaN"] = func(m *Machine, fr *frame, a []Value, _ *ssa.CallCommon) Value { return c.FIsNaN(a[0].(*Term)) }
	I["math.NaN"] = func(m *Machine, fr *frame, a []Value, _ *ssa.CallCommon) Value {
		return c.mk(&Term{Op: OConst, S: SF64, C: 0x7FF8000000000001})
	}

	// ---- strings / bytealg ----
	I["strings.Clone"] = func(m *Machine, fr *frame, a []Value, _ *ssa.CallCommon) Value { return a[0] }
	I["internal/stringslite.Clone"] = I["strings.Clone"]
	I["internal/bytealg.IndexByteString"] = func(m *Machine, fr *frame, a []Value, _ *ssa.CallCommon) Value {
		return m.indexByte(c.StrBytes(a[0].(Str)), a[1].(*Term))
	}
	I["internal/bytealg.IndexByte"] = func(m *Machine, fr *frame, a []Value, _ *ssa.CallCommon) Value {
		return m.indexByte(sliceTerms(a[0]), a[1].(*Term))
	}
	I["internal/bytealg.LastIndexByteString"] = func(m *Machine, fr *frame, a []Value, _ *ssa.CallCommon) Value {
		bs := c.StrBytes(a[0].(Str))
		for i := len(bs) - 1; i >= 0; i-- {
			if m.branch(c.Eq(bs[i], a[1].(*Term))) {
				return c.BV(uint64(i), 64)
			}
		}
		return c.BV(^uint64(0), 64)
	}
	I["internal/bytealg.CountString"] = func(m *Machine, fr *frame, a []Value, _ *ssa.CallCommon) Value {
		return m.countByte(c.StrBytes(a[0].(Str)), a[1].(*Term))
	}
	I["internal/bytealg.Count"] = func(m *Machine, fr *frame, a []Value, _ *ssa.CallCommon) Value {
		return m.countByte(sliceTerms(a[0]), a[1].(*Term))
	}
	I["internal/bytealg.Equal"] = func(m *Machine, fr *frame, a []Value, _ *ssa.CallCommon) Value {
		x, y := sliceTerms(a[0]), sliceTerms(a[1])
		if len(x) != len(y) {
			return c.False
		}
		r := c.True
		for i := range x {
			r = c.And(r, c.Eq(x[i], y[i]))
		}
		return r
	}
	I["bytes.Equal"] = I["internal/bytealg.Equal"]
	I["internal/bytealg.IndexString"] = func(m *Machine, fr *frame, a []Value, _ *ssa.CallCommon) Value {
		return m.indexSub(c.StrBytes(a[0].(Str)), c.StrBytes(a[1].(Str)))
	}
	I["internal/bytealg.Index"] = func(m *Machine, fr *frame, a []Value, _ *ssa.CallCommon) Value {
		return m.indexSub(sliceTerms(a[0]), sliceTerms(a[1]))
	}
	I["strings.Index"] = func(m *Machine, fr *frame, a []Value, _ *ssa.CallCommon) Value {
		return m.indexSub(c.StrBytes(a[0].(Str)), c.StrBytes(a[1].(Str)))
	}
	I["strings.Contains"] = func(m *Machine, fr *frame, a []Value, _ *ssa.CallCommon) Value {
		if h := a[0].(Str); h.B != nil && len(h.B) > 64 {
			// long symbolic haystack: the outcome is left unconstrained (both explored) instead of
			// forking once per position; only diagnostics depend on it in the code under analysis
			return c.Fresh("contains.long", SBool, 0)
		}
		r := m.indexSub(c.StrBytes(a[0].(Str)), c.StrBytes(a[1].(Str)))
		return c.Cmp(OSLe, c.BV(0, 64), r.(*Term))
	}
	I["internal/bytealg.MakeNoZero"] = func(m *Machine, fr *frame, a []Value, call *ssa.CallCommon) Value {
		n := int(m.concreteInt(a[0].(*Term), "MakeNoZero"))
		return m.newSlice(types.Typ[types.Uint8], n, n)
	}

	// ---- fmt / log ----
	I["fmt.Sprintf"] = func(m *Machine, fr *frame, a []Value, _ *ssa.CallCommon) Value {
		return m.format(a[0].(Str), a[1].(Slice).V)
	}
	I["fmt.Errorf"] = func(m *Machine, fr *frame, a []Value, _ *ssa.CallCommon) Value {
		m.fmtOpaque++ // error texts are not the subject: symbolic numbers are rendered opaquely (no fork per digit count)
		s := m.format(a[0].(Str), a[1].(Slice).V)
		m.fmtOpaque--
		// wrap %w operand if present
		var wrapped Value = Iface{}
		if a[0].(Str).B == nil && strings.Contains(a[0].(Str).S, "%w") {
			for _, x := range a[1].(Slice).V {
				if iv, ok := x.(Iface); ok && iv.T != nil && m.P.isError(iv.T) {
					wrapped = iv
				}
			}
		}
		return m.newError(s, wrapped)
	}
	I["fmt.Sprint"] = func(m *Machine, fr *frame, a []Value, _ *ssa.CallCommon) Value {
		var parts []*Term
		for _, x := range a[0].(Slice).V {
			parts = append(parts, c.StrBytes(m.fmtValue(x, 'v'))...)
		}
		return mkStr(parts)
	}
	for _, n := range []string{"fmt.Printf", "fmt.Println", "fmt.Print", "fmt.Fprintf", "fmt.Fprintln", "fmt.Fprint", "log.Printf", "log.Println", "log.Print",
		"(*log.Logger).Printf", "(*log.Logger).Println", "(*log.Logger).Print", "(*log.Logger).Output", "log.Fatalf", "log.Fatal"} {
		n := n
		I[n] = func(m *Machine, fr *frame, a []Value, call *ssa.CallCommon) Value {
			return m.zeroResultByName(n)
		}
	}
	I["log.New"] = func(m *Machine, fr *frame, a []Value, call *ssa.CallCommon) Value {
		cell := new(Value)
		*cell = Struct{}
		return cell
	}
	I["errors.Is"] = func(m *Machine, fr *frame, a []Value, _ *ssa.CallCommon) Value {
		return c.Bool(m.errorsIs(fr, a[0].(Iface), a[1].(Iface), 0))
	}
	I["errors.As"] = func(m *Machine, fr *frame, a []Value, _ *ssa.CallCommon) Value {
		return c.Bool(m.errorsAs(fr, a[0].(Iface), a[1].(Iface)))
	}
	registerTime(m)
	registerReflect(m)
	registerEnv(m)
	registerLSlice(m)
	registerBinary(m)
	registerCrypto(m)
}

func (m *Machine) zeroResultByName(n string) Value {
	switch {
	case strings.HasPrefix(n, "fmt.F"), n == "fmt.Printf", n == "fmt.Println", n == "fmt.Print":
		return Tuple{m.ctx.BV(0, 64), Iface{}}
	case strings.HasSuffix(n, "Output"):
		return Iface{}
	}
	return nil
}

func (m *Machine) nonNil(v Value) *Value {
	p, _ := v.(*Value)
	if p == nil {
		m.goPanic("nil pointer dereference (atomic)")
	}
	return p
}

func sliceTerms(v Value) []*Term {
	s := v.(Slice)
	out := make([]*Term, len(s.V))
	for i, x := range s.V {
		out[i] = x.(*Term)
	}
	return out
}

func (m *Machine) indexByte(bs []*Term, b *Term) Value {
	c := m.ctx
	for i, x := range bs {
		if m.branch(c.Eq(x, b)) {
			return c.BV(uint64(i), 64)
		}
	}
	return c.BV(^uint64(0), 64)
}

func (m *Machine) countByte(bs []*Term, b *Term) Value {
	c := m.ctx
	n := c.BV(0, 64)
	for _, x := range bs {
		n = c.Bin(OAdd, n, c.Ite(c.Eq(x, b), c.BV(1, 64), c.BV(0, 64)))
	}
	return n
}

func (m *Machine) indexSub(s, sub []*Term) Value {
	c := m.ctx
	if len(sub) == 0 {
		return c.BV(0, 64)
	}
	for i := 0; i+len(sub) <= len(s); i++ {
		eq := c.True
		for j := range sub {
			eq = c.And(eq, c.Eq(s[i+j], sub[j]))
		}
		if m.branch(eq) {
			return c.BV(uint64(i), 64)
		}
	}
	return c.BV(^uint64(0), 64)
}

// ---- errors ----

func (p *Program) isError(t types.Type) bool {
	errT := types.Universe.Lookup("error").Type().Underlying().(*types.Interface)
	return p.implements(t, errT)
}

// newError builds an *fmt.wrapError-like value: we use errors.errorString / a private struct.
func (m *Machine) newError(msg Str, wrapped Value) Value {
	// use *errors.errorString for plain errors, *fmt.wrapError when wrapping
	if iv, ok := wrapped.(Iface); ok && iv.T != nil {
		if t := m.P.namedType("fmt", "wrapError"); t != nil {
			cell := new(Value)
			*cell = Struct{msg, iv}
			return Iface{T: types.NewPointer(t), V: cell}
		}
	}
	t := m.P.namedType("errors", "errorString")
	cell := new(Value)
	*cell = Struct{msg}
	return Iface{T: types.NewPointer(t), V: cell}
}

func (p *Program) namedType(pkg, name string) types.Type {
	pk := p.FindPkg(pkg)
	if pk == nil {
		return nil
	}
	o := pk.Pkg.Scope().Lookup(name)
	if o == nil {
		return nil
	}
	return o.Type()
}

func (m *Machine) unwrapErr(fr *frame, e Iface) (Iface, bool) {
	if e.T == nil {
		return Iface{}, false
	}
	ms := m.P.Prog.MethodSets.MethodSet(e.T)
	sel := ms.Lookup(nil, "Unwrap")
	if sel == nil {
		return Iface{}, false
	}
	f := m.P.Prog.MethodValue(sel)
	if f == nil {
		return Iface{}, false
	}
	sig := f.Signature
	if sig.Results().Len() != 1 || !types.IsInterface(sig.Results().At(0).Type()) {
		return Iface{}, false
	}
	r := m.callFn(fr, f, []Value{e.V}, nil, nil)
	iv, _ := r.(Iface)
	return iv, iv.T != nil
}

func (m *Machine) errorsIs(fr *frame, err, target Iface, depth int) bool {
	if err.T == nil || target.T == nil {
		return err.T == nil && target.T == nil
	}
	for depth < 16 {
		if types.Comparable(target.T) && m.branch(m.equal(err, target)) {
			return true
		}
		// Is method
		if sel := m.P.Prog.MethodSets.MethodSet(err.T).Lookup(nil, "Is"); sel != nil {
			if f := m.P.Prog.MethodValue(sel); f != nil && f.Signature.Params().Len() == 1 {
				if r, ok := m.callFn(fr, f, []Value{err.V, target}, nil, nil).(*Term); ok && m.branch(r) {
					return true
				}
			}
		}
		// joinError: Unwrap() []error
		if sel := m.P.Prog.MethodSets.MethodSet(err.T).Lookup(nil, "Unwrap"); sel != nil {
			if f := m.P.Prog.MethodValue(sel); f != nil {
				if _, isSlice := f.Signature.Results().At(0).Type().Underlying().(*types.Slice); isSlice {
					r := m.callFn(fr, f, []Value{err.V}, nil, nil).(Slice)
					for _, e := range r.V {
						if m.errorsIs(fr, e.(Iface), target, depth+1) {
							return true
						}
					}
					return false
				}
			}
		}
		next, ok := m.unwrapErr(fr, err)
		if !ok {
			return false
		}
		err = next
		depth++
	}
	return false
}

func (m *Machine) errorsAs(fr *frame, err, target Iface) bool {
	if target.T == nil {
		m.goPanic("errors: target cannot be nil")
	}
	pt, ok := target.T.Underlying().(*types.Pointer)
	if !ok {
		m.goPanic("errors: target must be a non-nil pointer")
	}
	tt := pt.Elem()
	tp := target.V.(*Value)
	for d := 0; d < 16 && err.T != nil; d++ {
		match := false
		if types.IsInterface(tt) {
			match = m.P.implements(err.T, tt.Underlying().(*types.Interface))
			if match {
				m.store(tp, err)
				return true
			}
		} else if types.Identical(err.T, tt) {
			m.store(tp, err.V)
			return true
		}
		next, ok := m.unwrapErr(fr, err)
		if !ok {
			return false
		}
		err = next
	}
	return false
}

// ---- formatting ----

// show renders a value for observation logs.
func (m *Machine) show(v Value, d int) string {
	if d > 4 {
		return "…"
	}
	switch x := v.(type) {
	case *Term:
		if x.IsConst() {
			if x.S == SBool {
				return strconv.FormatBool(x.C == 1)
			}
			return strconv.FormatUint(x.C, 10)
		}
		s := x.String()
		if len(s) > 80 {
			s = s[:80] + "…"
		}
		return s
	case Str:
		if x.B == nil {
			return strconv.Quote(x.S)
		}
		return fmt.Sprintf("<sym string len %d>", len(x.B))
	case Iface:
		if x.T == nil {
			return "nil"
		}
		return x.T.String() + ":" + m.show(x.V, d+1)
	case *Value:
		if x == nil {
			return "nil"
		}
		return "&" + m.show(*x, d+1)
	case Struct:
		var parts []string
		for _, f := range x {
			parts = append(parts, m.show(f, d+1))
		}
		return "{" + strings.Join(parts, " ") + "}"
	case Slice:
		var parts []string
		for i, f := range x.V {
			if i > 16 {
				parts = append(parts, "…")
				break
			}
			parts = append(parts, m.show(f, d+1))
		}
		return "[" + strings.Join(parts, " ") + "]"
	}
	return fmt.Sprintf("%T", v)
}

// fmtValue renders one operand for verb.
func (m *Machine) fmtValue(v Value, verb byte) Str {
	c := m.ctx
	switch x := v.(type) {
	case Iface:
		if x.T == nil {
			return Str{S: "<nil>"}
		}
		if verb != 'd' && verb != 'x' && verb != 'T' {
			// error / Stringer
			for _, mn := range []string{"Error", "String"} {
				if sel := m.P.Prog.MethodSets.MethodSet(x.T).Lookup(nil, mn); sel != nil {
					if f := m.P.Prog.MethodValue(sel); f != nil && f.Signature.Params().Len() == 0 && f.Signature.Results().Len() == 1 {
						if b := basicOf(f.Signature.Results().At(0).Type()); b != nil && b.Info()&types.IsString != 0 {
							if p, ok := x.V.(*Value); ok && p == nil {
								return Str{S: "<nil>"}
							}
							if m.fmtDepth > 3 {
								return Str{S: "<fmt>"}
							}
							m.fmtDepth++
							r := m.callFn(m.curFrame, f, []Value{x.V}, nil, nil)
							m.fmtDepth--
							return r.(Str)
						}
					}
				}
			}
		}
		if verb == 'T' {
			return Str{S: x.T.String()}
		}
		return m.fmtTyped(x.V, x.T, verb)
	}
	_ = c
	return m.fmtTyped(v, nil, verb)
}

func (m *Machine) fmtTyped(v Value, t types.Type, verb byte) Str {
	c := m.ctx
	switch x := v.(type) {
	case *Term:
		signed := t != nil && isSigned(t)
		if x.S == SBool {
			if x.IsConst() {
				return Str{S: strconv.FormatBool(x.C == 1)}
			}
			return Str{S: "<bool>"}
		}
		if x.S != SBV {
			if x.IsConst() {
				return Str{S: strconv.FormatFloat(fval(x), 'g', -1, 64)}
			}
			return Str{S: "<float>"}
		}
		if x.IsConst() {
			switch verb {
			case 'x':
				return Str{S: strconv.FormatUint(x.C, 16)}
			case 'c':
				return Str{S: string(rune(x.C))}
			}
			if signed {
				return Str{S: strconv.FormatInt(sext(x.C, x.W), 10)}
			}
			return Str{S: strconv.FormatUint(x.C, 10)}
		}
		if (verb == 'd' || verb == 'v') && m.fmtOpaque == 0 {
			if !signed {
				return m.fmtUintSym(x)
			}
		}
		return Str{S: "<int>"}
	case Str:
		return x
	case Slice:
		if verb == 'x' || verb == 'X' {
			var sb strings.Builder
			ok := true
			for _, e := range x.V {
				if t, isT := e.(*Term); isT && t.W == 8 && t.IsConst() {
					fmt.Fprintf(&sb, "%02x", t.C)
				} else {
					ok = false
				}
			}
			if ok {
				return Str{S: sb.String()}
			}
		}
		if verb == 's' {
			bs := make([]*Term, 0, len(x.V))
			ok := true
			for _, e := range x.V {
				if t, isT := e.(*Term); isT && t.W == 8 {
					bs = append(bs, t)
				} else {
					ok = false
				}
			}
			if ok {
				return mkStr(bs)
			}
		}
		return Str{S: "<slice>"}
	case nil:
		return Str{S: "<nil>"}
	}
	_ = c
	return Str{S: "<" + fmt.Sprintf("%T", v) + ">"}
}

// fmtUintSym renders a symbolic unsigned integer in decimal by forking on the digit count.
func (m *Machine) fmtUintSym(x *Term) Str {
	c := m.ctx
	if s, ok := m.fmtMemo[x]; ok {
		return s
	}
	if x.Op != OVar {
		x = m.rewrite(x) // express x through the digits of variables already rendered
		if x.IsConst() {
			return Str{S: strconv.FormatUint(x.C, 10)}
		}
		if s, ok := m.fmtMemo[x]; ok {
			return s
		}
	}
	// x may be the value strconv parsed back from text we rendered ourselves:
	// h (or its low bits) where zext(x0) == h is on the path condition.
	{
		base := x
		k := int(x.W) // value of x == base mod 2^k
		for {
			if base.Op == OExtract && base.C&0xff == 0 {
				if int(base.W) < k {
					k = int(base.W)
				}
				base = base.Args[0]
				continue
			}
			if base.Op == OZExt {
				base = base.Args[0]
				if int(base.W) < k {
					k = int(base.W)
				}
				continue
			}
			break
		}
		if x0, ok := m.hornerOf[base]; ok {
			m.refreshFacts()
			fits := k >= int(x0.W)
			if !fits {
				if r, ok := m.rangeOf(base, 0); ok && k < 64 && r.hi < uint64(1)<<uint(k) {
					fits = true
				}
			}
			if s, ok := m.fmtMemo[x0]; ok && fits {
				return s
			}
		}
	}
	defer func() {
		if r := recover(); r != nil {
			panic(r)
		}
	}()
	w := int(x.W)
	maxDigits := len(strconv.FormatUint(mask(x.W), 10))
	nd := 1
	pow := uint64(10)
	for nd < maxDigits {
		if m.branch(c.Cmp(OULt, x, c.BV(pow, w))) {
			break
		}
		nd++
		if pow > mask(x.W)/10 {
			break
		}
		pow *= 10
	}
	// Definitional extension without division: fresh digit characters c_0..c_{nd-1}
	// with '0' <= c_i <= '9', no leading zero, and x == Horner(c_i - '0') computed
	// exactly as strconv.ParseUint does (uint64, n*10 + d), so that parsing the
	// rendered text yields a term the simplifier/solver identifies with x.
	digits := make([]*Term, nd)
	h := c.BV(0, 64)
	for i := 0; i < nd; i++ {
		d := c.Fresh("digit", SBV, 8)
		digits[i] = d
		m.pc = append(m.pc, c.Cmp(OULe, c.BV('0', 8), d), c.Cmp(OULe, d, c.BV('9', 8)))
		if i == 0 && nd > 1 {
			m.pc = append(m.pc, c.Not(c.Eq(d, c.BV('0', 8))))
		}
		h = c.Bin(OAdd, c.Bin(OMul, h, c.BV(10, 64)), c.ZExt(c.Bin(OSub, d, c.BV('0', 8)), 64))
		// lemma (follows from the digit ranges): the prefix value is below 10^(i+1)
		p10 := uint64(1)
		for k := 0; k <= i; k++ {
			p10 *= 10
		}
		m.pc = append(m.pc, c.Cmp(OULt, h, c.BV(p10, 64)))
	}
	res := mkStr(digits)
	m.fmtMemo[x] = res
	m.hornerOf[h] = x
	if x.Op == OVar {
		// solved form: eliminate the variable x in favour of its digits
		// (x := low bits of the Horner value, which must fit x's width).
		if w < 64 {
			m.pc = append(m.pc, c.Cmp(OULe, h, c.BV(mask(x.W), 64)))
		}
		m.defEq[x] = c.Extract(h, w-1, 0)
		m.rwMemo = nil
		for i, p := range m.pc {
			m.pc[i] = m.rewrite(p)
		}
		m.facts = nil
	} else {
		m.pc = append(m.pc, c.Eq(c.ZExt(x, 64), h))
	}
	return res
}

// fmtHexSym renders %x/%X of a (possibly symbolic) unsigned integer with full zero
// padding, or of a byte slice, digit by digit (no forking).
func (m *Machine) fmtHexSym(arg Value, verb byte, width int, zeroPad bool) (Str, bool) {
	if verb != 'x' && verb != 'X' {
		return Str{}, false
	}
	c := m.ctx
	iv, ok := arg.(Iface)
	if !ok || iv.T == nil {
		return Str{}, false
	}
	var nibbles []*Term
	switch v := iv.V.(type) {
	case *Term:
		if v.S != SBV || v.IsConst() || isSigned(iv.T) {
			return Str{}, false
		}
		nd := int(v.W) / 4
		if !zeroPad || width < nd {
			return Str{}, false
		}
		for i := 0; i < width-nd; i++ {
			nibbles = append(nibbles, c.BV(0, 4))
		}
		for i := nd - 1; i >= 0; i-- {
			nibbles = append(nibbles, c.Extract(v, i*4+3, i*4))
		}
	case Slice:
		sym := false
		for _, e := range v.V {
			t, ok := e.(*Term)
			if !ok || t.W != 8 {
				return Str{}, false
			}
			if !t.IsConst() {
				sym = true
			}
		}
		if !sym {
			return Str{}, false
		}
		for i := 0; i < width-2*len(v.V); i++ {
			nibbles = append(nibbles, c.BV(0, 4))
		}
		for _, e := range v.V {
			t := e.(*Term)
			nibbles = append(nibbles, c.Extract(t, 7, 4), c.Extract(t, 3, 0))
		}
	default:
		return Str{}, false
	}
	alpha := uint64('a')
	if verb == 'X' {
		alpha = 'A'
	}
	out := make([]*Term, len(nibbles))
	for i, n := range nibbles {
		n8 := c.ZExt(n, 8)
		out[i] = c.Ite(c.Cmp(OULt, n8, c.BV(10, 8)), c.Bin(OAdd, n8, c.BV('0', 8)), c.Bin(OAdd, n8, c.BV(alpha-10, 8)))
	}
	return mkStr(out), true
}

func (m *Machine) format(f Str, args []Value) Str {
	c := m.ctx
	if f.B != nil {
		return Str{S: "<fmt>"}
	}
	var out []*Term
	lit := func(s string) {
		for i := 0; i < len(s); i++ {
			out = append(out, c.BV(uint64(s[i]), 8))
		}
	}
	ai := 0
	s := f.S
	for i := 0; i < len(s); i++ {
		if s[i] != '%' {
			out = append(out, c.BV(uint64(s[i]), 8))
			continue
		}
		j := i + 1
		for j < len(s) && strings.IndexByte("+-# 0123456789.*", s[j]) >= 0 {
			j++
		}
		if j >= len(s) {
			lit(s[i:])
			break
		}
		verb := s[j]
		flags := s[i+1 : j]
		if verb == '%' {
			lit("%")
			i = j
			continue
		}
		if ai >= len(args) {
			lit("%!" + string(verb) + "(MISSING)")
			i = j
			continue
		}
		width := -1
		if strings.Contains(flags, "*") {
			// width from the argument list
			wa := args[ai]
			ai++
			if iv, ok := wa.(Iface); ok {
				if t, ok := iv.V.(*Term); ok {
					width = int(m.concreteInt(t, "fmt width"))
				}
			}
			flags = strings.Replace(flags, "*", "", 1)
			if ai >= len(args) {
				lit("%!" + string(verb) + "(MISSING)")
				i = j
				continue
			}
		} else if len(flags) >= 2 && flags[0] == '0' {
			if wd, err := strconv.Atoi(flags[1:]); err == nil {
				width = wd
			}
		}
		zeroPad := len(flags) >= 1 && flags[0] == '0'
		arg := args[ai]
		ai++
		var r Str
		if hx, ok := m.fmtHexSym(arg, verb, width, zeroPad); ok {
			r = hx
		} else {
			r = m.fmtValue(arg, verb)
		}
		// zero-padded width for concrete numbers, e.g. %02x / %08x / %04d
		if r.B == nil && zeroPad && width > 0 {
			for len(r.S) < width {
				r.S = "0" + r.S
			}
		}
		if verb == 'q' && r.B == nil {
			r = Str{S: strconv.Quote(r.S)}
		}
		if verb == 'X' && r.B == nil {
			r.S = strings.ToUpper(r.S)
		}
		out = append(out, c.StrBytes(r)...)
		i = j
	}
	return mkStr(out)
}
