package gsx

import (
	"fmt"
	"go/constant"
	"go/token"
	"go/types"
	"unicode/utf8"

	"golang.org/x/tools/go/ssa"
)

func constantString(c *ssa.Const) string {
	if c.Value.Kind() == constant.String {
		return constant.StringVal(c.Value)
	}
	return c.Value.String()
}

var sizes = types.StdSizes{WordSize: 8, MaxAlign: 8}

func basicOf(t types.Type) *types.Basic {
	b, _ := t.Underlying().(*types.Basic)
	return b
}

func isSigned(t types.Type) bool {
	b := basicOf(t)
	if b == nil {
		return false
	}
	return b.Info()&types.IsInteger != 0 && b.Info()&types.IsUnsigned == 0
}

func (m *Machine) unop(fr *frame, in *ssa.UnOp) Value {
	x := fr.get(m, in.X)
	switch in.Op {
	case token.MUL: // load
		if r, ok := x.(*SymRef); ok {
			return m.loadRef(r)
		}
		p, ok := x.(*Value)
		if !ok {
			m.unsupported("load through %T", x)
		}
		if p == nil {
			m.goPanic("nil pointer dereference")
		}
		return m.load(p)
	case token.NOT:
		return m.ctx.Not(x.(*Term))
	case token.SUB:
		t := x.(*Term)
		if t.S == SBV {
			return m.ctx.Neg(t)
		}
		return m.ctx.FNeg(t)
	case token.XOR:
		return m.ctx.BNot(x.(*Term))
	case token.ARROW:
		v, ok := m.chanRecv(x)
		if in.CommaOk {
			return Tuple{v, m.ctx.Bool(ok)}
		}
		return v
	}
	m.unsupported("unop %v", in.Op)
	return nil
}

// shiftAmount adapts y to the width of x; sat reports whether y >= width(x) may occur.
func (m *Machine) shift(op Op, x, y *Term, ySigned bool) *Term {
	c := m.ctx
	w := int(x.W)
	if ySigned {
		m.require(c.Cmp(OSLe, c.BV(0, int(y.W)), y), "panic:shift", "negative shift amount")
	}
	var yy *Term
	var over *Term
	if int(y.W) > w {
		over = c.Cmp(OULe, c.BV(uint64(w), int(y.W)), y)
		yy = c.Extract(y, w-1, 0)
	} else {
		yy = c.ZExt(y, w)
		over = c.Cmp(OULe, c.BV(uint64(w), w), yy)
	}
	r := c.Bin(op, x, yy)
	if over.IsFalse() {
		return r
	}
	switch op {
	case OShl, OLShr:
		return c.Ite(over, c.BV(0, w), r)
	default:
		return c.Ite(over, c.Bin(OAShr, x, c.BV(uint64(w-1), w)), r)
	}
}

func (m *Machine) binop(op token.Token, xt types.Type, x, y Value, yt types.Type) Value {
	c := m.ctx
	switch op {
	case token.EQL:
		return m.equal(x, y)
	case token.NEQ:
		return c.Not(m.equal(x, y))
	}
	switch xv := x.(type) {
	case *Term:
		yv := y.(*Term)
		if xv.S == SBool {
			m.unsupported("bool binop %v", op)
		}
		if xv.S == SF32 || xv.S == SF64 {
			switch op {
			case token.ADD:
				return c.FBin(OFAdd, xv, yv)
			case token.SUB:
				return c.FBin(OFSub, xv, yv)
			case token.MUL:
				return c.FBin(OFMul, xv, yv)
			case token.QUO:
				return c.FBin(OFDiv, xv, yv)
			case token.LSS:
				return c.FCmp(OFLt, xv, yv)
			case token.LEQ:
				return c.FCmp(OFLe, xv, yv)
			case token.GTR:
				return c.FCmp(OFLt, yv, xv)
			case token.GEQ:
				return c.FCmp(OFLe, yv, xv)
			}
			m.unsupported("float binop %v", op)
		}
		signed := isSigned(xt)
		switch op {
		case token.ADD:
			return c.Bin(OAdd, xv, yv)
		case token.SUB:
			return c.Bin(OSub, xv, yv)
		case token.MUL:
			return c.Bin(OMul, xv, yv)
		case token.QUO, token.REM:
			m.require(c.Not(c.Eq(yv, c.BV(0, int(yv.W)))), "panic:divide", "integer divide by zero")
			if yv.IsConst() && yv.C != 0 && xv.Op == OMul && xv.Args[1].IsConst() && xv.Args[1].C != 0 && xv.Args[1].C%yv.C == 0 && xv.W == 64 {
				// (x*k)/d with d | k, when x*k is known not to overflow: x*(k/d), remainder 0
				inner, k := xv.Args[0], xv.Args[1].C
				m.refreshFacts()
				if r, ok := m.rangeOf(m.rewrite(inner), 0); ok && k < 1<<32 && r.hi <= (uint64(1)<<63-1)/k {
					if op == token.QUO {
						return c.Bin(OMul, inner, c.BV(k/yv.C, 64))
					}
					return c.BV(0, 64)
				}
			}
			if yv.IsConst() && yv.C != 0 && yv.C&(yv.C-1) == 0 && !xv.IsConst() {
				// power-of-two divisor: shift / mask when the dividend is unsigned or known non-negative
				nonneg := !signed
				if signed {
					m.refreshFacts()
					if rx, ok := m.rangeOf(m.rewrite(xv), 0); ok && rx.hi < uint64(1)<<(xv.W-1) {
						nonneg = true
					}
				}
				if nonneg {
					k := uint64(bitsLen(yv.C) - 1)
					if op == token.QUO {
						return c.Bin(OLShr, xv, c.BV(k, int(xv.W)))
					}
					return c.Bin(OBAnd, xv, c.BV(yv.C-1, int(xv.W)))
				}
			}
			if q, r, ok := m.divMod(xv, yv, signed); ok {
				if op == token.QUO {
					return q
				}
				return r
			}
			if signed {
				if op == token.QUO {
					return c.Bin(OSDiv, xv, yv)
				}
				return c.Bin(OSRem, xv, yv)
			}
			if op == token.QUO {
				return c.Bin(OUDiv, xv, yv)
			}
			return c.Bin(OURem, xv, yv)
		case token.AND:
			return c.Bin(OBAnd, xv, yv)
		case token.OR:
			return c.Bin(OBOr, xv, yv)
		case token.XOR:
			return c.Bin(OBXor, xv, yv)
		case token.AND_NOT:
			return c.Bin(OBAnd, xv, c.BNot(yv))
		case token.SHL:
			return m.shift(OShl, xv, yv, isSigned(yt))
		case token.SHR:
			if signed {
				return m.shift(OAShr, xv, yv, isSigned(yt))
			}
			return m.shift(OLShr, xv, yv, isSigned(yt))
		case token.LSS:
			if signed {
				return c.Cmp(OSLt, xv, yv)
			}
			return c.Cmp(OULt, xv, yv)
		case token.LEQ:
			if signed {
				return c.Cmp(OSLe, xv, yv)
			}
			return c.Cmp(OULe, xv, yv)
		case token.GTR:
			if signed {
				return c.Cmp(OSLt, yv, xv)
			}
			return c.Cmp(OULt, yv, xv)
		case token.GEQ:
			if signed {
				return c.Cmp(OSLe, yv, xv)
			}
			return c.Cmp(OULe, yv, xv)
		}
	case Str:
		yv := y.(Str)
		switch op {
		case token.ADD:
			if xv.B == nil && yv.B == nil {
				return Str{S: xv.S + yv.S}
			}
			return mkStr(append(append([]*Term{}, c.StrBytes(xv)...), c.StrBytes(yv)...))
		case token.LSS, token.LEQ, token.GTR, token.GEQ:
			if xv.B == nil && yv.B == nil {
				switch op {
				case token.LSS:
					return c.Bool(xv.S < yv.S)
				case token.LEQ:
					return c.Bool(xv.S <= yv.S)
				case token.GTR:
					return c.Bool(xv.S > yv.S)
				case token.GEQ:
					return c.Bool(xv.S >= yv.S)
				}
			}
			return m.strLess(xv, yv, op)
		}
	}
	m.unsupported("binop %v on %T", op, x)
	return nil
}

func (m *Machine) strLess(x, y Str, op token.Token) *Term {
	c := m.ctx
	xb, yb := c.StrBytes(x), c.StrBytes(y)
	n := len(xb)
	if len(yb) < n {
		n = len(yb)
	}
	// lt: exists first differing index with x<y, or prefix and len(x)<len(y)
	var lt, eq *Term
	eq = c.True
	lt = c.False
	for i := 0; i < n; i++ {
		lt = c.Or(lt, c.And(eq, c.Cmp(OULt, xb[i], yb[i])))
		eq = c.And(eq, c.Eq(xb[i], yb[i]))
	}
	if len(xb) < len(yb) {
		lt = c.Or(lt, eq)
		eq = c.False
	} else if len(xb) > len(yb) {
		eq = c.False
	}
	switch op {
	case token.LSS:
		return lt
	case token.LEQ:
		return c.Or(lt, eq)
	case token.GTR:
		return c.Not(c.Or(lt, eq))
	default:
		return c.Not(lt)
	}
}

func (m *Machine) conv(dst, src types.Type, x Value) Value {
	c := m.ctx
	ud, us := dst.Underlying(), src.Underlying()
	// pointers / unsafe.Pointer
	switch ud.(type) {
	case *types.Pointer:
		switch x.(type) {
		case *Value:
			return x
		case SlicePtr:
			return x
		}
	}
	if bd, ok := ud.(*types.Basic); ok && bd.Kind() == types.UnsafePointer {
		return x
	}
	switch xv := x.(type) {
	case *Term:
		bd := basicOf(dst)
		bs := basicOf(src)
		if bd == nil || bs == nil {
			m.unsupported("conv %v -> %v", src, dst)
		}
		switch {
		case bs.Info()&types.IsInteger != 0 && bd.Info()&types.IsInteger != 0:
			w, _ := intWidth(bd)
			if isSigned(src) {
				return c.SExt(xv, w)
			}
			return c.ZExt(xv, w)
		case bs.Info()&types.IsInteger != 0 && bd.Info()&types.IsFloat != 0:
			return c.FFromInt(xv, isSigned(src), fsortOf(bd))
		case bs.Info()&types.IsFloat != 0 && bd.Info()&types.IsInteger != 0:
			w, sg := intWidth(bd)
			return c.FToInt(xv, sg, w)
		case bs.Info()&types.IsFloat != 0 && bd.Info()&types.IsFloat != 0:
			return c.FConv(xv, fsortOf(bd))
		case bs.Info()&types.IsInteger != 0 && bd.Info()&types.IsString != 0:
			r := m.concretize(xv, "int->string")
			return Str{S: string(rune(sext(r, xv.W)))}
		case bs.Info()&types.IsBoolean != 0 && bd.Info()&types.IsBoolean != 0:
			return xv
		}
	case Str:
		switch d := ud.(type) {
		case *types.Basic:
			return xv
		case *types.Slice:
			eb := basicOf(d.Elem())
			if eb != nil && eb.Kind() == types.Uint8 {
				bs := c.StrBytes(xv)
				out := make([]Value, len(bs))
				for i, b := range bs {
					out[i] = b
				}
				return Slice{V: out}
			}
			if eb != nil && eb.Kind() == types.Int32 && xv.B == nil {
				var out []Value
				for _, r := range xv.S {
					out = append(out, c.BV(uint64(r), 32))
				}
				if out == nil {
					out = []Value{}
				}
				return Slice{V: out}
			}
		}
	case Slice:
		if bd := basicOf(dst); bd != nil && bd.Info()&types.IsString != 0 {
			es := us.(*types.Slice).Elem()
			if b := basicOf(es); b != nil && b.Kind() == types.Uint8 {
				bs := make([]*Term, len(xv.V))
				for i, v := range xv.V {
					bs[i] = v.(*Term)
				}
				return mkStr(bs)
			}
			// []rune -> string
			var buf []byte
			for _, v := range xv.V {
				r := m.concretize(v.(*Term), "rune")
				buf = utf8.AppendRune(buf, rune(int32(r)))
			}
			return Str{S: string(buf)}
		}
		return x
	case nil, *ssa.Function, *Closure, *Map, *Chan, Struct, Array, Iface:
		return x
	case LSlice:
		if _, ok := ud.(*types.Slice); ok {
			return x
		}
	}
	m.unsupported("conv %v -> %v (%T)", src, dst, x)
	return nil
}

func fsortOf(b *types.Basic) Sort {
	if b.Kind() == types.Float32 {
		return SF32
	}
	return SF64
}

// inBounds emits the index obligation 0 <= i < n and returns a concrete i.
func (m *Machine) checkIndex(i *Term, n int, what string) int {
	c := m.ctx
	i64 := i
	if i.W < 64 {
		i64 = c.ZExt(i, 64) // sub-word index types: callers pass typed terms; treat via sign info below
	}
	ok := c.Cmp(OULt, i64, c.BV(uint64(n), 64))
	m.require(ok, "panic:index", fmt.Sprintf("index out of range [%s] with length %d", what, n))
	return int(m.concretize(i64, "index"))
}

func (m *Machine) idx64(v Value, t types.Type) *Term {
	x := v.(*Term)
	if x.W == 64 {
		return x
	}
	if isSigned(t) {
		return m.ctx.SExt(x, 64)
	}
	return m.ctx.ZExt(x, 64)
}

func (m *Machine) indexAddr(fr *frame, in *ssa.IndexAddr) Value {
	x := fr.get(m, in.X)
	i := m.idx64(fr.get(m, in.Index), in.Index.Type())
	switch xv := x.(type) {
	case LSlice:
		return m.lsliceIndexAddr(xv, i)
	case Slice:
		return m.symIndexAddr(xv.V, i, "slice")
	case *Value:
		if xv == nil {
			m.goPanic("nil pointer dereference (array index)")
		}
		arr := (*xv).(Array)
		return m.symIndexAddr(arr, i, "array")
	}
	m.unsupported("indexaddr on %T", x)
	return nil
}

func (m *Machine) indexOp(fr *frame, in *ssa.Index) Value {
	x := fr.get(m, in.X)
	i := m.idx64(fr.get(m, in.Index), in.Index.Type())
	switch xv := x.(type) {
	case Array:
		return m.readIndexed(xv, i)
	case Str:
		return m.strIndex(xv, i)
	}
	m.unsupported("index on %T", x)
	return nil
}

// readIndexed reads elems[i]; for scalar elements and symbolic i an ite-chain is built.
func (m *Machine) readIndexed(elems []Value, i *Term) Value {
	c := m.ctx
	n := len(elems)
	if i.IsConst() {
		if i.C >= uint64(n) {
			m.goPanic(fmt.Sprintf("index out of range [%d] with length %d", int64(i.C), n))
		}
		return copyVal(elems[i.C])
	}
	m.require(c.Cmp(OULt, i, c.BV(uint64(n), 64)), "panic:index", fmt.Sprintf("index out of range with length %d", n))
	allScalar := n > 0 && n <= 512
	for _, e := range elems {
		if t, ok := e.(*Term); !ok || t.S != elems[0].(*Term).S || t.W != elems[0].(*Term).W {
			allScalar = false
			break
		}
	}
	if allScalar {
		return m.selectChain(elems, i, 0)
	}
	k := m.concretize(i, "index")
	return copyVal(elems[k])
}

// selectChain builds elems[i] as an ite-chain restricted to the known range of i;
// an index that is itself an ite is distributed first.
func (m *Machine) selectChain(elems []Value, i *Term, d int) *Term {
	c := m.ctx
	n := len(elems)
	if i.IsConst() {
		return elems[i.C].(*Term)
	}
	if d == 0 {
		m.selMemo = map[*Term]*Term{}
	}
	if r, ok := m.selMemo[i]; ok {
		return r
	}
	if i.Op == OIte && d < 2000 {
		r := c.Ite(i.Args[0], m.selectChain(elems, i.Args[1], d+1), m.selectChain(elems, i.Args[2], d+1))
		m.selMemo[i] = r
		return r
	}
	if i.Op == OZExt && i.Args[0].Op == OIte && d < 2000 {
		x := i.Args[0]
		r := c.Ite(x.Args[0], m.selectChain(elems, c.ZExt(x.Args[1], 64), d+1), m.selectChain(elems, c.ZExt(x.Args[2], 64), d+1))
		m.selMemo[i] = r
		return r
	}
	lo, hi := 0, n-1
	m.refreshFacts()
	if r, ok := m.rangeOf(i, 0); ok {
		if r.lo < uint64(n) && int(r.lo) > lo {
			lo = int(r.lo)
		}
		if r.hi < uint64(hi) {
			hi = int(r.hi)
		}
	}
	if lo > hi {
		lo = hi
	}
	r := elems[hi].(*Term)
	for k := hi - 1; k >= lo; k-- {
		r = c.Ite(c.Eq(i, c.BV(uint64(k), 64)), elems[k].(*Term), r)
	}
	return r
}

func (m *Machine) strIndex(s Str, i *Term) Value {
	c := m.ctx
	if s.B == nil && i.IsConst() {
		if i.C >= uint64(len(s.S)) {
			m.goPanic(fmt.Sprintf("index out of range [%d] with length %d", int64(i.C), len(s.S)))
		}
		return c.BV(uint64(s.S[i.C]), 8)
	}
	bs := c.StrBytes(s)
	vals := make([]Value, len(bs))
	for k, b := range bs {
		vals[k] = b
	}
	if len(vals) == 0 {
		m.goPanic("index out of range with length 0")
	}
	return m.readIndexed(vals, i)
}

func (m *Machine) lookup(fr *frame, in *ssa.Lookup) Value {
	x := fr.get(m, in.X)
	k := fr.get(m, in.Index)
	switch xv := x.(type) {
	case Str:
		return m.strIndex(xv, m.idx64(k, in.Index.Type()))
	case *Map:
		v, ok := m.mapGet(xv, k)
		if !ok {
			v = m.zero(in.X.Type().Underlying().(*types.Map).Elem())
		}
		if in.CommaOk {
			return Tuple{v, m.ctx.Bool(ok)}
		}
		return v
	}
	m.unsupported("lookup on %T", x)
	return nil
}

func (m *Machine) sliceOp(fr *frame, in *ssa.Slice) Value {
	c := m.ctx
	x := fr.get(m, in.X)
	getIdx := func(v ssa.Value) *Term {
		if v == nil {
			return nil
		}
		return m.idx64(fr.get(m, v), v.Type())
	}
	lo, hi, max := getIdx(in.Low), getIdx(in.High), getIdx(in.Max)
	var ln, cp int
	var backing []Value
	isStr := false
	var str Str
	switch xv := x.(type) {
	case LSlice:
		return m.lsliceOp(xv, lo, hi, max)
	case Slice:
		ln, cp = len(xv.V), cap(xv.V)
		backing = xv.V
	case *Value:
		if xv == nil {
			m.goPanic("nil pointer dereference (slice of array)")
		}
		arr := (*xv).(Array)
		ln, cp = len(arr), len(arr)
		backing = arr
	case Str:
		isStr = true
		str = xv
		ln, cp = xv.Len(), xv.Len()
	default:
		m.unsupported("slice of %T", x)
	}
	if lo == nil {
		lo = c.BV(0, 64)
	}
	if hi == nil {
		hi = c.BV(uint64(ln), 64)
	}
	limit := cp
	if isStr {
		limit = ln
	}
	if max != nil {
		m.require(c.Cmp(OULe, max, c.BV(uint64(cp), 64)), "panic:slice", fmt.Sprintf("slice bounds out of range [::max] with capacity %d", cp))
		m.require(c.Cmp(OULe, hi, max), "panic:slice", "slice bounds out of range [:hi:max]")
	} else {
		m.require(c.Cmp(OULe, hi, c.BV(uint64(limit), 64)), "panic:slice", fmt.Sprintf("slice bounds out of range [:hi] with capacity %d", limit))
	}
	m.require(c.Cmp(OULe, lo, hi), "panic:slice", "slice bounds out of range [lo:hi]")
	l := int(m.concretize(lo, "slice lo"))
	h := int(m.concretize(hi, "slice hi"))
	if isStr {
		if str.B == nil {
			return Str{S: str.S[l:h]}
		}
		return mkStr(str.B[l:h])
	}
	mx := cp
	if max != nil {
		mx = int(m.concretize(max, "slice max"))
	}
	if backing == nil {
		return Slice{}
	}
	return Slice{V: backing[l:h:mx]}
}

func (m *Machine) makeSlice(fr *frame, in *ssa.MakeSlice) Value {
	c := m.ctx
	ln := m.idx64(fr.get(m, in.Len), in.Len.Type())
	cp := m.idx64(fr.get(m, in.Cap), in.Cap.Type())
	et := in.Type().Underlying().(*types.Slice).Elem()
	m.require(c.Cmp(OSLe, c.BV(0, 64), ln), "panic:makeslice", "makeslice: len out of range")
	m.require(c.Cmp(OSLe, ln, cp), "panic:makeslice", "makeslice: cap out of range")
	m.allocObligation(cp, sizes.Sizeof(et))
	if m.opaqueAlloc && isByteType(et) {
		if l2 := m.rewrite(ln); !l2.IsConst() {
			m.pc = append(m.pc, c.Cmp(OULe, cp, c.BV(lsliceMax, 64)))
			// the first bytes (up to the length's known lower bound, at most 256) are tracked: zeroed
			var head []Value
			m.refreshFacts()
			if r, ok := m.rangeOf(l2, 0); ok && r.lo > 0 {
				n := r.lo
				if n > 256 {
					n = 256
				}
				head = make([]Value, n)
				for i := range head {
					head[i] = c.BV(0, 8)
				}
			}
			return LSlice{Len: ln, Cap: cp, Head: head}
		}
	}
	m.cutLen(cp)
	l := int(m.concretize(ln, "make len"))
	k := int(m.concretize(cp, "make cap"))
	return m.newSlice(et, l, k)
}

// allocObligation checks n*elemSize against the harness' allocation budget.
func (m *Machine) allocObligation(n *Term, elemSize int64) {
	if m.allocBudget == nil {
		return
	}
	c := m.ctx
	if elemSize <= 0 {
		elemSize = 1
	}
	// n <= budget/elemSize (avoids multiplication overflow)
	lim := c.Bin(OUDiv, m.allocBudget, c.BV(uint64(elemSize), 64))
	m.require(c.Cmp(OULe, n, lim), "alloc", fmt.Sprintf("allocation of n*%d bytes exceeds the budget", elemSize))
}

// cutLen bounds a *symbolic* allocation length to the stated exploration bound
// (after the panic and allocation obligations have been decided for every value).
func (m *Machine) cutLen(n *Term) {
	n = m.rewrite(n)
	if n.IsConst() || m.P.MaxSymLen <= 0 {
		return
	}
	c := m.ctx
	ok := c.Cmp(OULe, n, c.BV(uint64(m.P.MaxSymLen), 64))
	if m.concreteEnv != nil {
		if c.Eval(ok, m.concreteEnv) == 0 {
			m.end("cut", "symbolic length above bound")
		}
		return
	}
	switch m.solver.Check(m.pc, ok) {
	case Unsat:
		m.end("cut", "symbolic length above bound")
	case Unknown:
		m.incon = append(m.incon, "solver unknown (cutLen) @ "+m.where())
	}
	m.Stats.Cuts++
	m.pc = append(m.pc, ok)
}

func (m *Machine) newSlice(et types.Type, l, k int) Slice {
	if k > m.P.MaxAlloc {
		m.end("unwind", fmt.Sprintf("allocation of %d elements exceeds engine limit", k))
	}
	v := make([]Value, l, k)
	full := v[:k]
	if k > 0 {
		z := m.zero(et)
		_, scalar := z.(*Term)
		for i := range full {
			if scalar || i == 0 {
				full[i] = z
			} else {
				full[i] = m.zero(et)
			}
		}
	}
	return Slice{V: v}
}

func (m *Machine) typeAssert(x Value, in *ssa.TypeAssert) Value {
	iv, _ := x.(Iface)
	ok := false
	var res Value
	if iv.T != nil {
		if _, isRT := iv.V.(RT); isRT {
			// reflect.Type values only assert to reflect.Type-like interfaces
			if types.IsInterface(in.AssertedType) {
				ok = true
				res = iv
			}
		} else if types.IsInterface(in.AssertedType) {
			if m.P.implements(iv.T, in.AssertedType.Underlying().(*types.Interface)) {
				ok = true
				res = iv
			}
		} else if types.Identical(iv.T, in.AssertedType) {
			ok = true
			res = iv.V
		}
	}
	if in.CommaOk {
		if !ok {
			res = m.zero(in.AssertedType)
		}
		return Tuple{res, m.ctx.Bool(ok)}
	}
	if !ok {
		if iv.T == nil {
			m.goPanic(fmt.Sprintf("interface conversion: interface is nil, not %s", in.AssertedType))
		}
		m.goPanic(fmt.Sprintf("interface conversion: interface is %s, not %s", iv.T, in.AssertedType))
	}
	return res
}

// ---- range ----

type iter struct {
	str   []*Term
	conc  string
	isStr bool
	ents  []mapEntry
	pos   int
}

func (m *Machine) rangeIter(x Value, t types.Type) Value {
	switch xv := x.(type) {
	case Str:
		if xv.B == nil {
			return &iter{isStr: true, conc: xv.S}
		}
		// symbolic string: iterate bytes as runes only if ASCII is assumed — unsupported
		m.unsupported("range over symbolic string")
	case *Map:
		if xv == nil {
			return &iter{}
		}
		ents := append([]mapEntry{}, xv.E...)
		if m.P.MapOrderPerm && len(ents) > 1 && len(ents) <= 3 {
			perms := permutations(len(ents))
			k := m.choose(len(perms), "map order")
			p := perms[k]
			ne := make([]mapEntry, len(ents))
			for i, j := range p {
				ne[i] = ents[j]
			}
			ents = ne
		}
		return &iter{ents: ents}
	}
	m.unsupported("range over %T", x)
	return nil
}

func permutations(n int) [][]int {
	var out [][]int
	var rec func(cur []int, used []bool)
	rec = func(cur []int, used []bool) {
		if len(cur) == n {
			out = append(out, append([]int{}, cur...))
			return
		}
		for i := 0; i < n; i++ {
			if !used[i] {
				used[i] = true
				rec(append(cur, i), used)
				used[i] = false
			}
		}
	}
	rec(nil, make([]bool, n))
	return out
}

func (m *Machine) next(it *iter, in *ssa.Next) Value {
	c := m.ctx
	if in.IsString {
		if it.pos >= len(it.conc) {
			return Tuple{c.False, c.BV(0, 64), c.BV(0, 32)}
		}
		r, sz := utf8.DecodeRuneInString(it.conc[it.pos:])
		p := it.pos
		it.pos += sz
		return Tuple{c.True, c.BV(uint64(p), 64), c.BV(uint64(r), 32)}
	}
	if it.pos >= len(it.ents) {
		tt := in.Type().(*types.Tuple)
		return Tuple{c.False, m.zeroOrNil(tt.At(1).Type()), m.zeroOrNil(tt.At(2).Type())}
	}
	e := it.ents[it.pos]
	it.pos++
	return Tuple{c.True, copyVal(e.K), copyVal(e.V)}
}

func (m *Machine) zeroOrNil(t types.Type) Value {
	if b, ok := t.(*types.Basic); ok && b.Kind() == types.Invalid {
		return nil
	}
	return m.zero(t)
}

// ---- builtins ----

func (m *Machine) builtin(fr *frame, b *ssa.Builtin, args []Value, call *ssa.CallCommon) Value {
	c := m.ctx
	switch b.Name() {
	case "len":
		switch x := args[0].(type) {
		case LSlice:
			return x.Len
		case Slice:
			return c.BV(uint64(len(x.V)), 64)
		case Str:
			return c.BV(uint64(x.Len()), 64)
		case Array:
			return c.BV(uint64(len(x)), 64)
		case *Map:
			if x == nil {
				return c.BV(0, 64)
			}
			if x.hasSym {
				m.unsupported("len of map with symbolic keys")
			}
			return c.BV(uint64(len(x.E)), 64)
		case *Chan:
			if x == nil {
				return c.BV(0, 64)
			}
			return c.BV(uint64(len(x.Buf)), 64)
		case *Value:
			return c.BV(uint64(len((*x).(Array))), 64)
		}
	case "cap":
		switch x := args[0].(type) {
		case LSlice:
			return x.Cap
		case Slice:
			return c.BV(uint64(cap(x.V)), 64)
		case Array:
			return c.BV(uint64(len(x)), 64)
		case *Chan:
			if x == nil {
				return c.BV(0, 64)
			}
			return c.BV(uint64(x.Cap), 64)
		case *Value:
			return c.BV(uint64(len((*x).(Array))), 64)
		}
	case "append":
		if _, ok := args[0].(LSlice); ok {
			return m.lsliceAppend(args[0], args[1])
		}
		if _, ok := args[1].(LSlice); ok {
			return m.lsliceAppend(args[0], args[1])
		}
		dst := args[0].(Slice)
		var src []Value
		switch s := args[1].(type) {
		case Slice:
			src = s.V
		case Str:
			for _, b := range c.StrBytes(s) {
				src = append(src, b)
			}
		}
		if len(src) == 0 {
			return dst
		}
		n := len(dst.V)
		if n+len(src) <= cap(dst.V) {
			out := dst.V[:n+len(src)]
			for i, v := range src {
				m.store(&out[n+i], v)
			}
			return Slice{V: out}
		}
		// grow: new backing array (capacity: deterministic doubling, one legal policy)
		nc := 2 * cap(dst.V)
		if nc < n+len(src) {
			nc = n + len(src)
		}
		out := make([]Value, n+len(src), nc)
		for i := 0; i < n; i++ {
			out[i] = copyVal(dst.V[i])
		}
		for i, v := range src {
			out[n+i] = copyVal(v)
		}
		if nc > len(out) {
			et := call.Args[0].Type().Underlying().(*types.Slice).Elem()
			full := out[:nc]
			for i := len(out); i < nc; i++ {
				full[i] = m.zero(et)
			}
		}
		return Slice{V: out}
	case "copy":
		if _, ok := args[0].(LSlice); ok {
			return m.lsliceCopy(args[0], args[1])
		}
		if _, ok := args[1].(LSlice); ok {
			return m.lsliceCopy(args[0], args[1])
		}
		dst := args[0].(Slice)
		var src []Value
		switch s := args[1].(type) {
		case Slice:
			src = s.V
		case Str:
			for _, b := range c.StrBytes(s) {
				src = append(src, b)
			}
		}
		n := len(dst.V)
		if len(src) < n {
			n = len(src)
		}
		// handle overlap like memmove
		tmp := make([]Value, n)
		for i := 0; i < n; i++ {
			tmp[i] = copyVal(src[i])
		}
		for i := 0; i < n; i++ {
			m.store(&dst.V[i], tmp[i])
		}
		return c.BV(uint64(n), 64)
	case "delete":
		mp, _ := args[0].(*Map)
		m.mapDelete(mp, args[1])
		return nil
	case "close":
		m.chanClose(args[0])
		return nil
	case "print", "println":
		return nil
	case "panic":
		m.goPanicValue(args[0])
	case "recover":
		return Iface{}
	case "min", "max":
		r := args[0].(*Term)
		signed := isSigned(call.Args[0].Type())
		for _, a := range args[1:] {
			t := a.(*Term)
			var lt *Term
			if r.S != SBV {
				lt = c.FCmp(OFLt, t, r)
			} else if signed {
				lt = c.Cmp(OSLt, t, r)
			} else {
				lt = c.Cmp(OULt, t, r)
			}
			if b.Name() == "max" {
				lt = c.Not(lt)
				// max: pick t when t >= r ; fine for ints
			}
			r = c.Ite(lt, t, r)
		}
		return r
	case "clear":
		switch x := args[0].(type) {
		case *Map:
			if x != nil {
				m.mapTouch(x)
				x.E = nil
				x.idx = nil
				x.hasSym = false
			}
		case Slice:
			et := call.Args[0].Type().Underlying().(*types.Slice).Elem()
			for i := range x.V {
				m.store(&x.V[i], m.zero(et))
			}
		}
		return nil
	case "ssa:wrapnilchk":
		if isNil(args[0]) {
			m.goPanic("value method called using nil pointer")
		}
		return args[0]
	case "SliceData":
		return SlicePtr{V: args[0].(Slice).V}
	case "StringData":
		s := args[0].(Str)
		return SlicePtr{S: &s}
	case "String":
		sp, ok := args[0].(SlicePtr)
		n := int(m.concreteInt(args[1].(*Term), "unsafe.String len"))
		if !ok {
			if n == 0 {
				return Str{}
			}
			m.unsupported("unsafe.String of %T", args[0])
		}
		if sp.S != nil {
			return *sp.S
		}
		bs := make([]*Term, n)
		for i := 0; i < n; i++ {
			bs[i] = sp.V[i].(*Term)
		}
		return mkStr(bs)
	case "Slice":
		sp, ok := args[0].(SlicePtr)
		n := int(m.concreteInt(args[1].(*Term), "unsafe.Slice len"))
		if !ok {
			if p, ok := args[0].(*Value); ok && (p == nil || n == 0) {
				return Slice{}
			}
			m.unsupported("unsafe.Slice of %T", args[0])
		}
		if sp.S != nil {
			bs := c.StrBytes(*sp.S)
			out := make([]Value, n)
			for i := 0; i < n; i++ {
				out[i] = bs[i]
			}
			return Slice{V: out}
		}
		return Slice{V: sp.V[:n:n]}
	}
	m.unsupported("builtin %s(%T)", b.Name(), firstOrNil(args))
	return nil
}

func firstOrNil(a []Value) Value {
	if len(a) == 0 {
		return nil
	}
	return a[0]
}

// divMod handles x / y and x % y for a *symbolic* divisor by definitional extension:
// fresh q, r with  x = y*q + r  and  r < y  (computed without overflow in twice the
// width), instead of a bit-blasted divider. Applies to unsigned operands, and to
// signed ones that are known non-negative; widths up to 32 bits (or 64-bit operands
// whose known range fits 31 bits). Equisatisfiable with the division for y != 0,
// which the caller has already required.
func (m *Machine) divMod(x, y *Term, signed bool) (q, r *Term, ok bool) {
	c := m.ctx
	x, y = m.rewrite(x), m.rewrite(y)
	if y.IsConst() || x.S != SBV {
		return nil, nil, false
	}
	w := int(x.W)
	m.refreshFacts()
	rx, okx := m.rangeOf(x, 0)
	ry, oky := m.rangeOf(y, 0)
	if signed {
		top := uint64(1) << uint(w-1)
		if !okx || !oky || rx.hi >= top || ry.hi >= top {
			return nil, nil, false
		}
	}
	if w > 32 {
		if !okx || !oky || rx.hi >= 1<<31 || ry.hi >= 1<<31 {
			return nil, nil, false
		}
	}
	key := [2]*Term{x, y}
	if m.divMemo == nil {
		m.divMemo = map[[2]*Term][2]*Term{}
	}
	if v, ok := m.divMemo[key]; ok {
		return v[0], v[1], true
	}
	q = c.Fresh("quo", SBV, w)
	r = c.Fresh("rem", SBV, w)
	x64, y64, q64, r64 := c.ZExt(x, 64), c.ZExt(y, 64), c.ZExt(q, 64), c.ZExt(r, 64)
	lim := c.BV(uint64(1)<<32, 64)
	if w < 32 {
		lim = c.BV(uint64(1)<<uint(w), 64)
	}
	m.pc = append(m.pc,
		c.Cmp(OULt, q64, lim), c.Cmp(OULt, r64, lim),
		c.Eq(x64, c.Bin(OAdd, c.Bin(OMul, y64, q64), r64)),
		c.Cmp(OULt, r64, y64),
		c.Cmp(OULe, q64, x64))
	m.divMemo[key] = [2]*Term{q, r}
	return q, r, true
}

// learnEq records t == v (just added to the path condition) as a rewrite rule, peeling
// invertible wrappers so that the innermost variable gets a definition, and re-simplifies
// the path condition (e.g. y*q becomes linear once the quotient q is known).
func (m *Machine) learnEq(t *Term, v uint64) {
	c := m.ctx
	changed := false
	for d := 0; d < 8 && !t.IsConst(); d++ {
		if t.Op == OVar || t.Op == OUDiv || t.Op == OSDiv || t.Op == OURem || t.Op == OMul {
			m.defEq[t] = c.BV(v, int(t.W))
			changed = true
		}
		switch {
		case t.Op == OZExt:
			t = t.Args[0]
			v &= mask(t.W)
		case t.Op == OAdd && t.Args[1].IsConst():
			v = (v - t.Args[1].C) & mask(t.W)
			t = t.Args[0]
		case t.Op == OAdd && t.Args[0].IsConst():
			v = (v - t.Args[0].C) & mask(t.W)
			t = t.Args[1]
		default:
			d = 8
		}
	}
	if !changed {
		return
	}
	m.rwMemo = nil
	for i, p := range m.pc {
		m.pc[i] = m.rewrite(p)
	}
	m.facts = nil
}

func bitsLen(x uint64) int {
	n := 0
	for x != 0 {
		n++
		x >>= 1
	}
	return n
}
