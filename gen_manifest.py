#!/usr/bin/env python3
# Generates MANIFEST.json from the table below (kept in one place so it stays valid).
import json, sys

ENGINE = "gsx"
CHECKS = {
 "C08": dict(
   text="An independent reference codec for the Part 6 chunk layout (written in the harness on top of the standard library primitives, sharing no code with uasc/uapolicy) is executed symbolically together with the real send and receive paths: every chunk gopcua emits is verified, decrypted and compared by the reference, every chunk the reference seals must be accepted by gopcua with the same content; nonces, sequence numbers and body bytes are symbolic, primitives are uninterpreted so equality is decided for all values.",
   note="Single final chunks (MSG under five policies x two modes; OPN requests under five policies x key size pairs). Multi-chunk messages, OPN responses and the primitives themselves are outside. Trusted: go/ssa, gsx, cvc5, the reference codec in the harness.",
   ref="DESIGN.md §5 C08"),
 "C28": dict(
   text="Two kernels executed symbolically: (1) the real node monitor on a real client against a scripted server with its own handle->node view; the server reports a symbolic value for a registered / removed / refused / unknown client handle and the delivered message is compared with that view; (2) a raw client on the real server pipeline writes symbolic values to two monitored nodes and publishes until the server is quiet; the last published value per item is compared with the node's current value.",
   note="Kernel decomposition (client side, server side); the end-to-end run monitor+client+server is not encoded. Bounded schedules (<= 1 forced context switch), <= 3 writes. Trusted: go/ssa, gsx, z3.",
   ref="DESIGN.md §5 C28"),
 "C27": dict(
   text="The real publish loop and the subscription API calls run as goroutines inside the symbolic executor against a scripted server; the executor explores every select outcome and every interleaving up to a preemption bound and decides blocked-forever states (all goroutines blocked, no timer pending inside the time horizon). Counterexamples are replayed natively with delay points.",
   note="Found and fixed: pause/resume signalling through two polled channels lost resumes and could block senders (publish loop paused for ever after cancel + subscribe; ForgetSubscription blocking under subMux). Bounded schedules (<= 1/2 forced context switches); the reconnect monitor is not part of the scenario. Trusted: go/ssa, gsx goroutine interpretation, z3.",
   ref="DESIGN.md §5 C27"),
 "C34": dict(
   text="Two raw clients run short read/write programs with symbolic values against the real server pipeline inside the symbolic executor; the executor explores the interleavings of all goroutines involved up to a preemption bound, records each history on a logical clock and checks it against every linearization of a register. Schedule-dependent counterexamples are replayed natively with delay points that follow the explored schedule.",
   note="Bounded schedules (<= 1/2 forced context switches), 2 clients x <= 2 operations, one node. Data-race freedom at the memory-model level is C36 (not applicable). Trusted: go/ssa, gsx goroutine interpretation, z3.",
   ref="DESIGN.md §5 C34"),
 "C30": dict(
   text="Server configurations (subsets of policy/mode pairs, applied through the real option functions) and client OpenSecureChannel requests are executed symbolically end to end: the real client channel against the real channel broker over a modelled pipe with ideal crypto; on the uasc level the mode in the request body is a free 32-bit value independent of how the request is secured. Oracle: channel opened iff the pair is configured and the mode fits the policy; advertised endpoints equal the configured pairs.",
   note="Found and fixed: the server adopted any policy/mode from the client's request (a SignAndEncrypt-only server opened a None channel; a secured request could ask for mode None or an undefined mode). Outside: the accept loop wiring, New()'s default, renewals. Trusted: go/ssa, gsx, cvc5.",
   ref="DESIGN.md §5 C30"),
 "C22": dict(
   text="The client's CreateSession + ActivateSession sequence runs inside the symbolic executor over a secured channel opened by the real asymmetric OpenSecureChannel exchange against the repository's own server-side channel; the scripted server returns a genuine, corrupted (symbolic delta), empty, wrong-key or wrong-data session signature. RSA is an ideal signature model (verification succeeds iff the pair was produced by Sign under that key).",
   note="Found and fixed: CreateSession returned (nil, nil) on a failed signature check and Connect then dereferenced the nil session. Bounds: 2 (quick) / 5 (thorough) secured policies x {Sign, SignAndEncrypt} x 5 signature kinds. Cryptographic strength of RSA itself is assumed (ideal model). Trusted: go/ssa, gsx, cvc5.",
   ref="DESIGN.md §5 C22"),
 "C21": dict(
   text="Client-side response handling is executed symbolically against scripted responses of every decoder-producible shape: node helpers through a scripted ClientInterface; client and subscription calls over a real secure channel opened inside the executor against the repository's own server-side channel. Every Go run-time panic is an obligation.",
   note="Found and fixed: unchecked type assertions and result indexing in node.go and subscription.go. Connect/reconnect paths, history reads and the monitor package are outside. Trusted: go/ssa, gsx, z3.",
   ref="DESIGN.md §5 C21"),
 "C26": dict(
   text="Kernel: one inductive step of the publish loop with symbolic pending acknowledgements, result codes, subscription id and notification shape, run through the real publish path over a real channel; the pending-acknowledgement list after the step is compared with the Part 4 rule.",
   note="Only the acknowledgement kernel is decided; reconnect / republish / recreate under faults is outside the claim. Trusted: go/ssa, gsx, z3.",
   ref="DESIGN.md §5 C26"),
 "C18": dict(
   text="The real request path (SendRequestWithTimeout, sendAsyncWithTimeout, the dispatcher goroutine, Receive, popHandler) runs inside the symbolic executor against a scripted peer over a modelled pipe; request ids in responses are symbolic, two concurrent callers and the dispatcher are explored under every schedule with a bounded number of preemptions.",
   note="Kernel + bounded schedules (<= 2/3 preemptions, <= 2 callers, policy None). Trusted: go/ssa, gsx goroutine interpretation, cvc5.",
   ref="DESIGN.md §5 C18"),
 "C19": dict(
   text="The real timeout path runs against a silent or late peer: timer duration (timeout + leniency for every uint32 ms), Bad_Timeout, slot release, and liveness of the channel for a following request when the first request's timer races with its response (timer race explored by the executor).",
   note="Kernel + bounded schedules; context cancellation and renewal requests are outside. Trusted: go/ssa, gsx, cvc5.",
   ref="DESIGN.md §5 C19"),
 "C29": dict(
   text="Sixteen request shapes with symbolic / boundary field values are pushed through the real handleService of a server built by the harness, with and without an activated session, on a channel opened by the real OpenSecureChannel handling; every Go run-time panic in the handler or in goroutines it starts is an obligation.",
   note="One request per run (plus session setup); blocking sends, several clients and raw chunks are outside (C13 covers malformed chunks). Found and fixed: nil dereferences for unknown ids / missing sessions, NewTicker panic for bad publishing intervals, Browse panic (C33). Trusted: go/ssa, gsx, z3.",
   ref="DESIGN.md §5 C29"),
 "C32": dict(
   text="Create/delete histories of subscriptions and cross-session requests on subscriptions and monitored items run through the real handlers; new ids are compared with the ids in use, refused requests must leave the tables unchanged.",
   note="Found and fixed: id = len+1 collision, missing continue after the ownership check. Bounds: histories of <= 4 creates and one delete; two sessions. Trusted: go/ssa, gsx, z3.",
   ref="DESIGN.md §5 C32"),
 "C35": dict(
   text="Requests carrying a null, unknown, not-activated, closed or activated authentication token are pushed through the real handleService; without an activated session the response must carry a session status code and server state must be unchanged.",
   note="Found and fixed: no session check existed at all (central check added in handleService). Channel-binding of sessions is outside the claim. Trusted: go/ssa, gsx, z3.",
   ref="DESIGN.md §5 C35"),
 "C31": dict(
   text="The real AttributeService.Read/Write and NodeNameSpace.Attribute/SetAttribute/Node.Access are executed on a node whose two access level attributes are absent, any byte value (symbolic) or wrongly typed; returned values and accepted writes are compared with the access predicate.",
   note="Bounds: one node, one read and one write of the Value attribute. Trusted: go/ssa, gsx, z3.",
   ref="DESIGN.md §5 C31"),
 "C33": dict(
   text="NodeNameSpace.Browse with suitableRef/suitableDirection/suitableRefType/getSubRefs is executed over a reference type hierarchy and a node with symbolic references; the result is compared with a reference implementation of the Part 4 matching predicate for every direction, type, subtype flag and class mask.",
   note="Bounds: 7 reference types, <= 1 (quick) / 2 (thorough) references. Found and fixed: subtypes always included, panic on HasSubtype in the closure. Trusted: go/ssa, gsx, z3, the reference predicate.",
   ref="DESIGN.md §5 C33"),
 "C01": dict(
   text="Values of the hand-written codec types, Variants of the built-in types and array shapes, and two service messages are built from symbolic leaves, encoded and decoded by the real code (reflection codec included) and compared with reflect.DeepEqual; every comparison is an SMT query over all leaf values.",
   note="Covers the special types and the shared reflection codec, not an enumeration of all ~400 generated types (stated outside). Found and fixed: arrays of ByteStrings were encoded without their elements. Trusted: go/ssa, gsx (reflect intrinsics), z3.",
   ref="DESIGN.md §5 C01"),
 "C02": dict(
   text="The real decoders (hand-written and reflection-driven) are executed on N fully symbolic input bytes; every Go run-time panic, every allocation with a symbolic size (budget 256*N + 4 MiB), the consumed-bytes bound and loop bounds are obligations decided by the solver for all 256^N inputs per length.",
   note="Bounds per type in the evidence (N between 3 and 17 quick). Found and fixed (f896de1): negative array length panic, dimension-product overflow hang, unbounded allocations. Trusted: go/ssa, gsx (reflect intrinsics), z3.",
   ref="DESIGN.md §5 C02"),
 "C03": dict(
   text="decode -> Encode -> decode on N fully symbolic input bytes for the hand-written codecs; Encode must not fail or panic, the re-encoding must decode completely and reflect.DeepEqual (symbolic) to the first decode.",
   note="Bounds per type in the evidence. Found and fixed: ExtensionObject with nil Value panicked in Encode; scalar Variant with the dimensions bit re-encoded longer. Trusted: go/ssa, gsx, z3.",
   ref="DESIGN.md §5 C03"),
 "C11": dict(
   text="The real send path is executed from an arbitrary counter pre-state and the sequence numbers on the wire are checked (+1, single permitted restart, never 0). Two concurrent senders are explored under every schedule with a bounded number of preemptions at synchronisation operations (context-bounded analysis inside the symbolic executor); wire numbers must stay +1 and messages contiguous.",
   note="Kernel + bounded schedules: 2 senders, <= 2 (quick) / 3 (thorough) preemptions; the renewal race is outside the claim. Trusted: go/ssa, gsx (goroutine interpretation), cvc5.",
   ref="DESIGN.md §5 C11"),
 "C20": dict(
   text="Two messages are received back to back through the real receive path; all memory reachable from the first delivered message is put under a write monitor while the second is received, and its content is compared afterwards. Same at UACP frame level.",
   note="Bounds: two messages, first single- or two-chunk, three modes. Trusted: go/ssa, gsx heap model (one cell per slice element / struct field), cvc5.",
   ref="DESIGN.md §5 C20"),
 "C23": dict(
   text="ApplyConfig with every non-file option (numeric arguments symbolic) is executed, followed by the construction of further configurations; package-level defaults, the later client's configuration and pointer sharing between configurations are asserted.",
   note="Found and fixed: shared DefaultClientACK pointer. Options needing files/keys are outside. Trusted: go/ssa, gsx.",
   ref="DESIGN.md §5 C23"),
 "C09": dict(
   text="A chunk from the real send path is modified (any byte position x any non-zero symbolic delta), truncated/extended to every length with the size field adjusted, or produced under other keys, and delivered through the real Receive/readChunk/verifyAndDecrypt; it must be rejected and nothing may panic. The MAC is ideal (Ackermannised UF + 'a tag verifies only if issued for the same input').",
   note="Bounds: single-chunk messages, Basic256Sha256 and Basic128Rsa15, Sign and SignAndEncrypt, one modified byte. Authenticity itself is the cryptographic idealisation (K-level); safety (no panic) is decided. Found and fixed: short-chunk panic. Trusted: go/ssa, gsx, cvc5.",
   ref="DESIGN.md §5 C09"),
 "C10": dict(
   text="Two authentic chunks from the real send path are delivered through the real Receive followed by a verbatim copy of the first (directly, or after the second); the copy must not be delivered.",
   note="On the unchanged tree this is violated and listed as a known finding (no receive-side sequence number check); the check prints KNOWN-FINDING and would report any other violation. Bounds: histories of 2-3 single-chunk messages. Trusted: go/ssa, gsx, cvc5.",
   ref="DESIGN.md §5 C10"),
 "C12": dict(
   text="A reference sender written from Part 6 cuts one message into 2-3 chunks with symbolic starting sequence number (incl. the wrap to any value < 1024, 0 included), symbolic request ids, optional interleaved chunk or abort of another request; the real Receive/mergeChunks/DecodeService must deliver exactly the original message.",
   note="Bounds: see evidence. Found and fixed: first chunk with sequence number 0 dropped. Trusted: go/ssa, gsx, cvc5, the reference sender in the harness.",
   ref="DESIGN.md §5 C12"),
 "C13": dict(
   text="Frames with arbitrary (symbolic) bytes behind a plausible header, and OPN chunks with structured garbage, are fed to the real Receive on client and server channels in every mode: every Go run-time panic is an obligation. The buffering bound is checked on streams of intermediate chunks with symbolic request ids.",
   note="Safety (no panic) within the stated lengths; the memory bound is violated on the unchanged tree and listed as a known finding; liveness is outside the claim. Found and fixed: short-chunk panic. Trusted: go/ssa, gsx, cvc5.",
   ref="DESIGN.md §5 C13"),
 "C05": dict(
   text="uacp.Conn.Receive (with io.ReadFull/ReadAtLeast from their SSA) is executed on an arbitrary symbolic byte stream read through a TCP model whose reads return symbolic lengths; the result of every call is compared with a reference framing of the stream (deliver exactly the frame bytes; error for size < 8, size > buffer, truncation, ERR frames).",
   note="Bounds: streams up to 16/22 symbolic bytes, receive buffers {8,12,24}, up to 2/3 frames, every placement of <= 2/3 short reads plus byte-at-a-time. Trusted: go/ssa, gsx, z3, the reference framing in the harness.",
   ref="DESIGN.md §5 C05"),
 "C06": dict(
   text="The real Hello/Acknowledge exchange (client Handshake against server srvhandshake over a modelled pipe) runs with all eight limits symbolic and the resulting per-side send/receive buffers are compared with what the other side advertised; the secure channel's receive-side and send-side message limits are checked on 1..3-chunk messages with symbolic limits (0 = unlimited).",
   note="Found and fixed: buffer negotiation (3a8fee5), zero limits on receive (ff5f211). Known finding (listed in known_findings.json): no send-side enforcement of the peer's message limits. Bounds: buffers [8192, 2^20], limits any uint32. Trusted: go/ssa, gsx, cvc5.",
   ref="DESIGN.md §5 C06"),
 "C16": dict(
   text="Kernel of the property: the real handleOpenSecureChannelResponse, scheduleRenewal and scheduleExpiration are executed symbolically with the revised and the requested lifetime as free uint32 variables; the durations handed to the timers are checked against lifetime/2 <= renew < lifetime and lifetime <= expiry <= 1.25*lifetime.",
   note="Kernel only: schedules of concurrent requests around a renewal are outside the claim. Bounds: every lifetime >= 1 ms. Found and fixed (9c26e30): whole-second truncation for short lifetimes. Trusted: go/ssa, gsx, cvc5; native replay observes the renewal request / instance removal in real time.",
   ref="DESIGN.md §5 C16"),
 "C17": dict(
   text="One inductive step: arbitrary (symbolic) channel id and token ids, two tokens; the real scheduleExpiration runs with its timer firing; real Receive before and after on chunks produced by the real send path under each token. After the step the old token's chunk must be rejected and the new token must still work.",
   note="Bounds: two tokens, Sign and SignAndEncrypt, Basic256Sha256. Ideal MAC and collision-resistant key derivation assumed. Found and fixed (2a091de): instance map indexed by the wrong id. Trusted: go/ssa, gsx, cvc5.",
   ref="DESIGN.md §5 C17"),
 "C38": dict(
   text="The real SetMaximumBodySize and signAndEncrypt (with the policy constructors and key derivation they call) are executed symbolically with the chunk size a free variable over [8192, 2^31-1] and the chunk a symbolic-length byte sequence; the fit, block-alignment, MessageSize and plus-one-does-not-fit assertions are SMT queries (cvc5) decided for every chunk size at once.",
   note="Bounds: all chunk sizes in [8192, 2^31-1], five symmetric policies x {Sign, SignAndEncrypt} and None. HMAC/AES idealised (lengths only matter). Outside: chunk sizes >= 2^31. Trusted: go/ssa, gsx, cvc5.",
   ref="DESIGN.md §5 C38"),
 "C07": dict(
   text="Sizes: the real send path (SendMsgWithContext, newMessage, writeMessageChunks, EncodeChunks, signAndEncrypt, Conn.Write) runs with symbolic chunk size and a body of symbolic length; every frame written is checked (<= chunk size, MessageSize field == length, C/F marking, chunk count, bodies add up). RoundTrip: the wire bytes are fed into the peer's real receive path (Conn.Receive, readChunk, verifyAndDecrypt, mergeChunks, DecodeService) and the decoded message must equal the original for every body byte and nonce.",
   note="Bounds: Sizes — all chunk sizes [8192, 2^31-1], bodies needing <= 2 (quick) / 4 (thorough) chunks, 11 policy/mode combinations; RoundTrip — chunk size 8192, body lengths around the chunk boundaries, all bytes symbolic. Crypto idealised (uninterpreted HMAC, AES-CBC as inverse pair). OPN/asymmetric chunk sizes are in C15. Trusted: go/ssa, gsx, cvc5.",
   ref="DESIGN.md §5 C07"),
 "C14": dict(
   text="generateKeys and the five symmetric policy constructors are executed symbolically with both nonces arbitrary; every derived key/IV is compared with a reference P_SHA written from Part 6/RFC 5246 and the Part 7 length table, for both roles; HMAC is an uninterpreted function (Ackermann), additionally injective for the direction-separation query.",
   note="Bounds: all five policies, nonces of the policy's length with every byte symbolic. Outside: the hash functions themselves; separation for Basic128Rsa15. Trusted: go/ssa, gsx, cvc5, the reference derivation in the harness.",
   ref="DESIGN.md §5 C14"),
 "C15": dict(
   text="The asymmetric constructors and the RSAOAEP/PKCS1v15/RSAPSS block loops are executed symbolically: key sizes as free variables for the limit and length obligations, symbolic plaintext bytes for the round trip, RSA primitives replaced by their documented contracts.",
   note="Bounds: key sizes 1..1024 bytes (limits), policy range (lengths), {min,max[,mid]} with plaintexts up to 2 blocks+1 (round trip). RSA itself is a contract stub (K-level for cryptographic strength). Trusted: go/ssa, gsx, cvc5, Part 7 table in the harness.",
   ref="DESIGN.md §5 C15"),
 "C24": dict(
   text="SelectEndpoint (with sort.Sort / sort.Reverse from their SSA) is executed on lists of symbolic endpoints; result compared with a reference predicate (matches query, no matching endpoint has a higher level, error iff none matches).",
   note="Bounds: lists of 0..3 (quick) / 0..4 (thorough) endpoints, any uint8 level, modes 0..3, policies from an enumerated set incl. empty and unknown; queries as short name or URI. Trusted: go/ssa, gsx, z3.",
   ref="DESIGN.md §5 C24"),
 "C04": dict(
   text="Symbolic execution of the real NodeID.String / ParseNodeID / ParseExpandedNodeID / Equal (and the strconv, strings, base64, hex code they call) from go/ssa with namespace, numeric id and every identifier byte symbolic; each assertion is an SMT query (z3) over all values inside the stated identifier lengths, sat models are replayed natively.",
   note="Bounds: string ids <= 3 bytes quick / 6 thorough, opaque ids <= 3/6 bytes, GUID 16 symbolic bytes, all uint16 namespaces and uint32 numeric ids. fmt.Sprintf is modelled exactly for the verbs used (%d, %s, %0*X). Trusted: go/ssa, the gsx executor, z3.",
   ref="DESIGN.md §5 C04"),
}
NOT_APPLICABLE = {
 "C25": "connection lifecycle under real TCP resets, server restarts and wall-clock outages: the quantified object is a fault sequence over the OS network stack and goroutine population, not a computation that can be encoded as solver queries within reach (DESIGN §6)",
 "C36": "data-race freedom is defined over the Go memory model / race detector happens-before relation on real schedules; the symbolic executor has no encoding of either (DESIGN §6)",
 "C37": "a finite matrix of real RSA/AES/x509/TCP executions; nothing in it is symbolic and with idealised crypto the result would say nothing about interoperability: enumeration of concrete runs is outside this technique (DESIGN §6)",
}

SCHED = {"C11","C18","C19","C27","C28","C34","C16"}
for _pid,_c in CHECKS.items():
    if "technique" not in _c:
        _c["technique"] = ("bounded symbolic execution of go/ssa to SMT-LIB2 (cvc5 / z3): inputs, lengths, clock values and I/O segmentation are solver variables, assertions and run-time panics are solver queries"
            + ("; goroutine interleavings (context switches at synchronisation operations, select outcomes, timer races) are decision variables of the same exploration, bounded by a preemption bound" if _pid in SCHED else "")
            + "; sat models are replayed against the native build")

def main():
    props=[json.loads(l)["id"] for l in open("/verif/properties.jsonl")]
    checks=[]
    for pid in props:
        if pid not in CHECKS: continue
        c=CHECKS[pid]
        checks.append({
          "property_id": pid,
          "quick_cmd": f"./bin/vcheck {pid} --tier quick",
          "thorough_cmd": f"./bin/vcheck {pid} --tier thorough",
          "evidence_file": f"evidence/{pid}.json",
          "replay_cmd_template": "./bin/vcheck --replay {path}",
          "engine": ENGINE,
          "level_claimed": {"category": "model_checking", "text": c["text"], "design_ref": c["ref"]},
          "level_note": c["note"],
          "technique": c.get("technique","bounded symbolic execution of go/ssa to SMT-LIB2 (z3), counterexamples replayed against the native build"),
        })
    na=[{"property_id":p,"reason":NOT_APPLICABLE.get(p,"not yet covered by a registered check in this revision (harness under construction)")} for p in props if p not in CHECKS]
    m={"version":1,
       "setup_cmd":"cd engine && GOFLAGS=-mod=mod GOPROXY=off GOSUMDB=off GOTOOLCHAIN=local go build -o ../bin/vcheck ./cmd/vcheck",
       "hooks":{"guard":"verif","enable":"none needed: harnesses are injected with go/packages Overlay and `go test -overlay`; nothing is written to /repo","baseline_off_cmd":"cd /repo && go test -vet=off -count=1 -timeout 25m ./...","source_commits":[],"add_only":True},
       "engines":[{"name":"gsx","path":"engine","serves_properties":sorted(CHECKS),"kind_free_text":"symbolic executor for go/ssa written for this task: bit-vector term DAG, path exploration by decision prefixes, one persistent z3 -in per worker, native replay of every model through go test -overlay"}],
       "checks":checks,
       "not_applicable":na,
       "notes":"All checks: cwd /verif, rebuild the encoding from /repo's working tree on every run. Exit 0 = holds within stated bounds; 1 = VIOLATION (replayed natively); 2 = inconclusive (never on the unchanged tree)."}
    json.dump(m,open("/verif/MANIFEST.json","w"),indent=1)
    print("checks:",len(checks),"not_applicable:",len(na))
main()
