#!/usr/bin/env python3
# Generates MANIFEST.json from the table below (kept in one place so it stays valid).
import json, sys

ENGINE = "gsx"
CHECKS = {
 "C04": dict(
   text="Symbolic execution of the real NodeID.String / ParseNodeID / ParseExpandedNodeID / Equal (and the strconv, strings, base64, hex code they call) from go/ssa with namespace, numeric id and every identifier byte symbolic; each assertion is an SMT query (z3) over all values inside the stated identifier lengths, sat models are replayed natively.",
   note="Bounds: string ids <= 3 bytes quick / 6 thorough, opaque ids <= 3/6 bytes, GUID 16 symbolic bytes, all uint16 namespaces and uint32 numeric ids. fmt.Sprintf is modelled exactly for the verbs used (%d, %s, %0*X). Trusted: go/ssa, the gsx executor, z3.",
   ref="DESIGN.md §5 C04"),
}
NOT_APPLICABLE = {
}

def main():
    props=[json.loads(l)["id"] for l in open("/verif/properties.jsonl")]
    checks=[]
    for pid in props:
        if pid not in CHECKS: continue
        c=CHECKS[pid]
        checks.append({
          "property_id": pid,
          "quick_cmd": f"./bin/vcheck {pid} --tier quick",
          "thorough_cmd": f"./bin/vcheck {pid} --tier thorough",
          "evidence_file": f"evidence/{pid}.json",
          "replay_cmd_template": "./bin/vcheck --replay {path}",
          "engine": ENGINE,
          "level_claimed": {"category": "model_checking", "text": c["text"], "design_ref": c["ref"]},
          "level_note": c["note"],
          "technique": c.get("technique","bounded symbolic execution of go/ssa to SMT-LIB2 (z3), counterexamples replayed against the native build"),
        })
    na=[{"property_id":p,"reason":NOT_APPLICABLE.get(p,"not yet covered by a registered check in this revision (harness under construction)")} for p in props if p not in CHECKS]
    m={"version":1,
       "setup_cmd":"cd engine && GOFLAGS=-mod=mod GOPROXY=off GOSUMDB=off GOTOOLCHAIN=local go build -o ../bin/vcheck ./cmd/vcheck",
       "hooks":{"guard":"verif","enable":"none needed: harnesses are injected with go/packages Overlay and `go test -overlay`; nothing is written to /repo","baseline_off_cmd":"cd /repo && go test -vet=off -count=1 -timeout 25m ./...","source_commits":[],"add_only":True},
       "engines":[{"name":"gsx","path":"engine","serves_properties":sorted(CHECKS),"kind_free_text":"symbolic executor for go/ssa written for this task: bit-vector term DAG, path exploration by decision prefixes, one persistent z3 -in per worker, native replay of every model through go test -overlay"}],
       "checks":checks,
       "not_applicable":na,
       "notes":"All checks: cwd /verif, rebuild the encoding from /repo's working tree on every run. Exit 0 = holds within stated bounds; 1 = VIOLATION (replayed natively); 2 = inconclusive (never on the unchanged tree)."}
    json.dump(m,open("/verif/MANIFEST.json","w"),indent=1)
    print("checks:",len(checks),"not_applicable:",len(na))
main()
