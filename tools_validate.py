#!/usr/bin/env python3
import json,jsonschema,glob,sys
m=json.load(open('/verif/MANIFEST.json'));jsonschema.validate(m,json.load(open('/root/.vp/MANIFEST.schema.json')))
es=json.load(open('/root/.vp/EVIDENCE.schema.json'))
bad=0
for c in m['checks']:
    f='/verif/'+c['evidence_file']
    try:
        jsonschema.validate(json.load(open(f)),es)
    except Exception as e:
        bad+=1; print('BAD',f,str(e)[:200])
ids=[json.loads(l)['id'] for l in open('/verif/properties.jsonl')]
claimed={c['property_id'] for c in m['checks']}; na={n['property_id'] for n in m.get('not_applicable',[])}
assert claimed|na==set(ids) and not (claimed&na), (set(ids)-claimed-na, claimed&na)
print('manifest ok; checks',len(claimed),'na',len(na),'bad evidence',bad)
